//! Loop-free float lemmas used by the C12 / C13 arguments (Verus treats f64 values as uninterpreted).
//! Each harness is loop-free over fully symbolic inputs of the stated domain, i.e. complete over that domain.

/// the expression shape of `edit::distance`: `(num as f64) / (den as f64)` with usize operands
#[inline(never)]
pub fn quotient(num: usize, den: usize) -> f64 {
    num as f64 / den as f64
}

#[cfg(kani)]
mod proofs {
    use super::*;

    /// for all 0 <= n <= m, 1 <= m < 2^32: the quotient is finite, in [0,1], and 0 iff n == 0
    #[kani::proof]
    fn norm_quotient() {
        let n: u32 = kani::any();
        let m: u32 = kani::any();
        kani::assume(m >= 1 && n <= m);
        let q = quotient(n as usize, m as usize);
        assert!(q.is_finite());
        assert!(q >= 0.0);
        assert!(q <= 1.0);
        assert!((q == 0.0) == (n == 0));
    }

    /// unnormalised: n / 1.0 is exactly n (n < 2^32)
    #[kani::proof]
    fn unit_quotient() {
        let n: u32 = kani::any();
        let q = n as usize as f64 / 1.0;
        assert!(q == n as f64);
        assert!(q.is_finite() && q >= 0.0);
    }

    /// C14: a probability argument of value zero never fires: for all r in [0,1) and p == 0.0 (either sign),
    /// `r < p.clamp(0., 1.)` is false -- the expression shape of `corrupt_whitespace` (clamp, then `r < p`).
    #[kani::proof]
    fn zero_prob_never_fires() {
        let r: f64 = kani::any();
        let p: f64 = kani::any();
        kani::assume(r >= 0.0 && r < 1.0);
        kani::assume(p == 0.0);
        let q = p.clamp(0., 1.);
        assert!(!(r < q));
    }

    /// C14: the constructor's domain assertion `iw_p > 0. || dw_p > 0.` (after clamping) is the negation of "both zero or
    /// negative or NaN"; used only to state the domain, nothing is derived from it
    #[kani::proof]
    fn clamp_keeps_unit_interval() {
        let p: f64 = kani::any();
        kani::assume(!p.is_nan());
        let q = p.clamp(0., 1.);
        assert!(q >= 0.0 && q <= 1.0);
    }
}
