//! Kani function contract for metrics::_f1.  `extracted.rs` is regenerated on every run from /repo/src/metrics.rs
//! (the item text verbatim, with the contract attributes below inserted in front of `fn _f1`).
//! `_f1` is loop-free, so each harness is a complete proof over its stated domain (counts < 2^20, the given beta).
#![allow(dead_code)]
include!("extracted.rs");

#[cfg(kani)]
mod proofs {
    use super::*;

    #[kani::proof_for_contract(_f1)]
    fn f1_contract_beta1() {
        _f1(kani::any(), kani::any(), kani::any(), 1.0);
    }
    #[kani::proof_for_contract(_f1)]
    fn f1_contract_beta_half() {
        _f1(kani::any(), kani::any(), kani::any(), 0.5);
    }
    #[kani::proof_for_contract(_f1)]
    fn f1_contract_beta2() {
        _f1(kani::any(), kani::any(), kani::any(), 2.0);
    }
}
