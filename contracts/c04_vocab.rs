// C04 -- vocabulary (character) tokenizer id maps against `vocab_at`
use vstd::prelude::*;
use vstd::string::StringSliceAdditionalSpecFns;
use vstd::std_specs::hash::*;
use std::collections::HashMap;
use std::borrow::Borrow;
use std::hash::Hash;
verus! {
//@include specs/std_extra.rs
//@include specs/err.rs
//@include specs/tok.rs

//@unit src/tokenization.rs type VocabTokenizer
pub type VocabTokenizer<Token, Config> = BaseTokenizer<Config, (String, Vocab<Token>)>;
//@end

impl<Token, Config> VocabTokenizer<Token, Config> {
    pub closed spec fn special(&self) -> Vocab<String> { self.special_vocab }
    pub closed spec fn regular(&self) -> Vocab<Token> { self.state.1 }
    pub closed spec fn unk(&self) -> String { self.state.0 }
    /// representation invariant established by `new_vocab_tokenizer` / `Vocab::build` / `new_base_tokenizer` (assumed)
    pub open spec fn wf(&self) -> bool {
        &&& self.regular().inverse() && self.special().inverse()
        &&& self.regular().fwd().len() + self.special().fwd().len() <= u32::MAX
        &&& forall|id: u32| #[trigger] self.regular().rev().contains_key(id) <==> id < self.regular().fwd().len()
        &&& forall|id: u32| #[trigger] self.special().rev().contains_key(id) <==>
                self.regular().fwd().len() <= id < self.regular().fwd().len() + self.special().fwd().len()
        // configuration precondition: no special spelling is also a regular token
        &&& forall|id: u32, k: u32| self.special().rev().contains_key(id) && self.regular().rev().contains_key(k) ==>
                string_bytes(#[trigger] self.special().rev()[id]) != tok_bytes(#[trigger] self.regular().rev()[k])
        // the unknown token is a special token
        &&& self.special().fwd().contains_key(self.unk())
    }
    pub open spec fn vocab_at(&self, id: u32) -> Option<Seq<u8>> {
        if id < self.regular().fwd().len() { Some(tok_bytes(self.regular().rev()[id])) }
        else if id < self.regular().fwd().len() + self.special().fwd().len() { Some(string_bytes(self.special().rev()[id])) }
        else { None }
    }
}

#[verifier::external_body]
pub proof fn axiom_borrow_token<T>(m: Map<T, u32>, k: &T)
    ensures
        contains_borrowed_key(m, k) <==> m.contains_key(*k),
        forall|v: u32| maps_borrowed_key_to_value(m, k, v) <==> m.contains_key(*k) && m[*k] == v,
{}

impl<Token, Config> VocabTokenizer<Token, Config>
where
    Token: PartialEq + Eq + Hash + Clone + FromBytes + ToBytes,
{
//@unit src/tokenization.rs fn vocab_size impl=^impl<Token,Config>Tokenize\sfor\sVocabTokenizer<Token,Config>
    fn vocab_size(&self) -> (r: usize)
        requires self.wf(), obeys_key_model::<String>(), obeys_key_model::<Token>(),
        ensures r == self.regular().fwd().len() + self.special().fwd().len(),
            forall|id: u32| self.vocab_at(id).is_some() <==> id < r,
    {
        self.state.1.len() + self.special_vocab.len()
    }
//@end

//@unit src/tokenization.rs fn id_to_token impl=^impl<Token,Config>Tokenize\sfor\sVocabTokenizer<Token,Config>
    fn id_to_token(&self, id: u32) -> (r: Option<Vec<u8>>)
        requires self.wf(),
        ensures (match r { Some(v) => self.vocab_at(id) == Some(v@), None => self.vocab_at(id).is_none() }),
    {
        if let Some(token) = self.special_vocab.id_to_token(&id) {
            proof { axiom_string_tok_bytes(*token); }
            Some(token.to_bytes())
        } else {
            let token = self.state.1.id_to_token(&id)?;
            Some(token.to_bytes())
        }
    }
//@end

//@unit src/tokenization.rs fn token_to_id impl=^impl<Token,Config>Tokenize\sfor\sVocabTokenizer<Token,Config>
    fn token_to_id(&self, token: &str) -> (r: Option<u32>)
        requires self.wf(), obeys_key_model::<String>(), obeys_key_model::<Token>(),
        ensures
            r.is_some() ==> self.vocab_at(r.unwrap()) == Some(chars_utf8(token@)),
            forall|id: u32| self.vocab_at(id) == Some(chars_utf8(token@)) ==> r == Some(id),
    {
        proof {
            axiom_borrow_string_str(self.special_vocab.fwd(), token);
            axiom_str_bytes(token);
        }
        let ghost want = chars_utf8(token@);
        if let Some(id) = self.special_vocab.token_to_id(token) {
            proof {
                let key = choose|key: String| key@ == token@ && #[trigger] self.special().fwd().contains_key(key) && self.special().fwd()[key] == id;
                assert(self.special().rev().contains_key(id) && self.special().rev()[id] == key);
                assert forall|id2: u32| self.vocab_at(id2) == Some(want) implies id2 == id by {
                    if id2 < self.regular().fwd().len() {
                        assert(self.regular().rev().contains_key(id2));
                    } else {
                        assert(self.special().rev().contains_key(id2));
                        axiom_utf8_injective(self.special().rev()[id2]@, key@);
                        axiom_string_ext(self.special().rev()[id2], key);
                    }
                }
            }
            Some(id)
        } else {
            proof {
                assert forall|id2: u32| self.special().rev().contains_key(id2) implies self.vocab_at(id2) != Some(want) by {
                    if self.vocab_at(id2) == Some(want) {
                        axiom_utf8_injective(self.special().rev()[id2]@, token@);
                        assert(self.special().fwd().contains_key(self.special().rev()[id2]));
                    }
                }
            }
            let token = Token::from_bytes(token.as_bytes()).ok()?;
            proof {
                axiom_borrow_token(self.state.1.fwd(), &token);
                assert forall|id2: u32| self.vocab_at(id2) == Some(want) implies self.regular().fwd().contains_key(token) && self.regular().fwd()[token] == id2 by {
                    assert(self.regular().rev().contains_key(id2));
                    axiom_tok_bytes_injective(self.regular().rev()[id2], token);
                }
            }
            self.state.1.token_to_id(&token)
        }
    }
//@end

//@unit src/tokenization.rs fn unk_token_id
    pub fn unk_token_id(&self) -> (r: u32)
        requires self.wf(), obeys_key_model::<String>(),
        ensures
            // the unknown id lies in the special range, distinct from every regular id
            self.regular().fwd().len() <= r < self.regular().fwd().len() + self.special().fwd().len(),
            self.special().rev()[r] == self.unk(),
    {
        proof { axiom_borrow_string_string(self.special_vocab.fwd(), &self.state.0); }
        self.special_vocab
            .token_to_id(&self.state.0)
            .expect("unk token is always in special vocab")
    }
//@end
}
} // verus!
fn main() {}
