// C04 -- byte tokenizer id maps against `vocab_at`
use vstd::prelude::*;
use vstd::string::StringSliceAdditionalSpecFns;
use vstd::std_specs::hash::*;
use std::collections::HashMap;
use std::borrow::Borrow;
use std::hash::Hash;
verus! {
//@include specs/std_extra.rs
//@include specs/err.rs
//@include specs/tok.rs
//@unit src/tokenization.rs enum GroupAggregation
//@rule derive_drop
pub enum GroupAggregation {
    Mean,
    Sum,
}
//@end
//@unit src/tokenization.rs enum ByteGroups
//@rule derive_drop
pub enum ByteGroups {
    Bytes,
    CodePoints,
}
//@end
//@unit src/tokenization.rs struct ByteTokenizerConfig
//@rule derive_drop
pub struct ByteTokenizerConfig {
    pub use_graphemes: bool,
    pub pad_to_multiple_of: Option<usize>,
    pub groups: ByteGroups,
    pub aggregation: GroupAggregation,
}
//@end

//@unit src/tokenization.rs type VocabFreeTokenizer
pub type VocabFreeTokenizer<Config> = BaseTokenizer<Config>;
//@end
//@unit src/tokenization.rs type ByteTokenizer
pub type ByteTokenizer = VocabFreeTokenizer<ByteTokenizerConfig>;
//@end

impl ByteTokenizer {
    pub closed spec fn special(&self) -> Vocab<String> { self.special_vocab }
    /// representation invariant established by `ByteTokenizer::new` / `new_base_tokenizer` (assumed):
    /// special ids follow the 256 byte ids contiguously; the special maps are mutually inverse;
    /// no special spelling is a single byte (configuration precondition)
    pub open spec fn wf(&self) -> bool {
        &&& self.special().inverse()
        &&& 256 + self.special().fwd().len() <= u32::MAX
        &&& forall|id: u32| #[trigger] self.special().rev().contains_key(id) <==> 256 <= id < 256 + self.special().fwd().len()
        &&& forall|id: u32| self.special().rev().contains_key(id) ==> string_bytes(#[trigger] self.special().rev()[id]).len() != 1
    }
    pub open spec fn vocab_at(&self, id: u32) -> Option<Seq<u8>> {
        if id < 256 { Some(seq![id as u8]) }
        else if id < 256 + self.special().fwd().len() { Some(string_bytes(self.special().rev()[id])) }
        else { None }
    }

//@unit src/tokenization.rs fn vocab_size impl=^impl\sTokenize\sfor\sByteTokenizer$
    fn vocab_size(&self) -> (r: usize)
        requires self.wf(), obeys_key_model::<String>(),
        ensures r == 256 + self.special().fwd().len(),
            forall|id: u32| self.vocab_at(id).is_some() <==> id < r,
    {
        256 + self.special_vocab.len()
    }
//@end

//@unit src/tokenization.rs fn id_to_token impl=^impl\sTokenize\sfor\sByteTokenizer$
//@rule closure_annot(s ;; &String ;; Vec<u8>)
    fn id_to_token(&self, id: u32) -> (r: Option<Vec<u8>>)
        requires self.wf(),
        ensures (match r { Some(v) => self.vocab_at(id) == Some(v@), None => self.vocab_at(id).is_none() }),
    {
        if id < 256 {
            Some(vec![id as u8])
        } else {
            self.special_vocab
                .id_to_token(&id)
                .map(|s: &String| -> (q: Vec<u8>) ensures q@ == string_bytes(*s) { s.as_bytes().to_vec() })
        }
    }
//@end

//@unit src/tokenization.rs fn token_to_id impl=^impl\sTokenize\sfor\sByteTokenizer$
//@rule R18
    fn token_to_id(&self, token: &str) -> (r: Option<u32>)
        requires self.wf(), obeys_key_model::<String>(),
        ensures
            r.is_some() ==> self.vocab_at(r.unwrap()) == Some(chars_utf8(token@)),
            forall|id: u32| self.vocab_at(id) == Some(chars_utf8(token@)) ==> r == Some(id),
    {
        proof {
            axiom_borrow_string_str(self.special_vocab.fwd(), token);
            axiom_str_bytes(token);
        }
        let ghost want = chars_utf8(token@);
        { let vt_s = token.as_bytes(); if vt_s.len() == 1 {
            proof {
                assert(want =~= seq![vt_s[0]]);
                assert forall|id2: u32| self.vocab_at(id2) == Some(want) implies id2 == vt_s[0] as u32 by {
                    if id2 < 256 { assert(seq![id2 as u8][0] == want[0]); }
                    else { assert(self.special().rev().contains_key(id2)); }
                }
            }
            let b = &vt_s[0]; Some(u32::from(*b)) } else {
            proof {
                assert forall|id2: u32| self.vocab_at(id2) == Some(want) implies
                    (exists|key: String| key@ == token@ && #[trigger] self.special().fwd().contains_key(key) && self.special().fwd()[key] == id2) by {
                    if id2 < 256 { assert(seq![id2 as u8].len() == 1); }
                    else {
                        assert(self.special().rev().contains_key(id2));
                        axiom_utf8_injective(self.special().rev()[id2]@, token@);
                        assert(self.special().fwd().contains_key(self.special().rev()[id2]));
                    }
                }
                assert forall|id2: u32, key: String| key@ == token@ && self.special().fwd().contains_key(key) && self.special().fwd()[key] == id2
                    implies self.vocab_at(id2) == Some(want) by {
                    assert(self.special().rev().contains_key(id2) && self.special().rev()[id2] == key);
                }
                assert forall|k1: String, k2: String| k1@ == token@ && k2@ == token@ implies k1 == k2 by { axiom_string_ext(k1, k2); }
            }
            self.special_vocab.token_to_id(token) } }
    }
//@end
}
} // verus!
fn main() {}
