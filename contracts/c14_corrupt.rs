// C14 -- preprocessing::corrupt_whitespace changes only whitespace and keeps the text whitespace-clean
//        (the boxed closure is lifted into a function by rule R22; see DESIGN 6 / C14 for what that drops)
use vstd::prelude::*;
use std::collections::HashMap;
use vstd::std_specs::cmp::PartialOrdSpec;
verus! {
//@include specs/std_extra.rs
//@include specs/err.rs
//@include specs/chars.rs
//@include specs/ws.rs

// ---------------------------------------------------------------- trusted prelude: floats, generator, strings
/// exec `a < b` / `a > b` on f64 are specified by vstd through the uninterpreted `partial_cmp_spec`
pub open spec fn flt(a: f64, b: f64) -> bool { a.partial_cmp_spec(&b) == Some(core::cmp::Ordering::Less) }
pub open spec fn fgt(a: f64, b: f64) -> bool { a.partial_cmp_spec(&b) == Some(core::cmp::Ordering::Greater) }
#[verifier::external_body]
proof fn axiom_f64_cmp()
    ensures <f64 as vstd::std_specs::cmp::PartialOrdSpec<f64>>::obeys_partial_cmp_spec(),
{}
/// `x.clamp(0., 1.)`
pub uninterp spec fn clamp01(x: f64) -> f64;
pub assume_specification[ f64::clamp ](x: f64, lo: f64, hi: f64) -> (r: f64)
    ensures lo == 0.0f64 && hi == 1.0f64 ==> r == clamp01(x);
/// 0.0 <= r < 1.0
pub uninterp spec fn f_unit(r: f64) -> bool;
/// p == 0.0 (either sign)
pub uninterp spec fn f_zero(p: f64) -> bool;
/// Kani lemma `zero_prob_never_fires` (kani/float_lemmas, loop-free over all f64 pairs): 0 <= r < 1 and p == 0.0 imply
/// !(r < p.clamp(0., 1.)).  Here the float predicates are uninterpreted; the lemma is the bridge.
#[verifier::external_body]
proof fn lemma_zero_prob(r: f64, p: f64)
    requires f_unit(r), f_zero(p),
    ensures !flt(r, clamp01(p)),
{}

/// rand_chacha::ChaCha8Rng: external.  Assumed: a generator is a deterministic stream determined by its seed, and
/// `random::<f64>()` (StandardUniform) returns a value in [0, 1).
#[verifier::external_body]
pub struct ChaCha8Rng { _p: () }
pub uninterp spec fn rng_state(r: ChaCha8Rng) -> (u64, nat);
pub uninterp spec fn rng_draw(seed: u64, k: nat) -> f64;
impl ChaCha8Rng {
    #[verifier::external_body]
    pub fn seed_from_u64(seed: u64) -> (r: ChaCha8Rng)
        ensures rng_state(r) == (seed, 0nat),
    { unimplemented!() }
    #[verifier::external_body]
    pub fn random(&mut self) -> (r: f64)
        ensures
            f_unit(r),
            r == rng_draw(rng_state(*old(self)).0, rng_state(*old(self)).1),
            rng_state(*final(self)) == (rng_state(*old(self)).0, rng_state(*old(self)).1 + 1),
    { unimplemented!() }
}

impl<'s> CharString<'s> {
    #[verifier::external_body]
    pub fn get_char(&self, n: usize) -> (r: Option<Character<'s>>)
        ensures
            n < self.view().len() ==> r.is_some() && r.unwrap().str@ == self.view()[n as int],
            n >= self.view().len() ==> r.is_none(),
    { unimplemented!() }
}

/// `impl Add<&str> for String` (push_str)
#[verifier::external_body]
fn vt_string_add(a: String, b: &str) -> (r: String)
    ensures r@ == a@ + b@,
{ a + b }
pub open spec fn views(parts: Seq<String>) -> Seq<Seq<char>> { parts.map(|i: int, s: String| s@) }
/// itertools `join("")`: concatenation in order
#[verifier::external_body]
fn vt_join_empty(parts: &Vec<String>) -> (r: String)
    ensures r@ == flat(views(parts@)),
{ parts.concat() }
/// a reachable panic is a failed obligation
#[verifier::external_body]
fn vt_panic()
    requires false,
{ panic!() }

//@unit src/data/mod.rs struct TextDataInfo
//@rule derive_drop
pub struct TextDataInfo {
    pub seed: u64,
    pub file_idx: usize,
    pub marks: HashMap<String, String>,
}
//@end

// ---------------------------------------------------------------- specification
/// what character i of the text becomes, given the decision bit d[i] ("the random draw fired")
pub open spec fn pc(cs: Seq<Seq<char>>, d: Seq<bool>, i: int) -> Seq<Seq<char>> {
    if ch_ws(cs[i]) { if d[i] { Seq::empty() } else { seq![cs[i]] } }
    else if d[i] && i > 0 && !ch_ws(cs[i - 1]) { seq![space(), cs[i]] }
    else { seq![cs[i]] }
}
/// the corrupted character sequence of the first k characters
pub open spec fn co(cs: Seq<Seq<char>>, d: Seq<bool>, k: int) -> Seq<Seq<char>>
    decreases k
{
    if k <= 0 { Seq::empty() } else { co(cs, d, k - 1) + pc(cs, d, k - 1) }
}
/// `out` is the text cs corrupted by decision bits d; a zero probability never fires
pub open spec fn corrupted_by(out: Seq<char>, cs: Seq<Seq<char>>, d: Seq<bool>, iw: f64, dw: f64) -> bool {
    &&& d.len() == cs.len()
    &&& out == flat(co(cs, d, cs.len() as int))
    &&& (f_zero(dw) ==> forall|i: int| 0 <= i < cs.len() && ch_ws(cs[i]) ==> !#[trigger] d[i])
    &&& (f_zero(iw) ==> forall|i: int| 0 <= i < cs.len() && !ch_ws(cs[i]) ==> !#[trigger] d[i])
}
/// the decision bits a generator seeded with `seed` produces: draw i decides character i ("deterministic function of
/// (text, seed)": the bits, hence the output, depend on nothing else)
pub open spec fn seeded_bit(cs: Seq<Seq<char>>, seed: u64, iw: f64, dw: f64, i: int) -> bool {
    if ch_ws(cs[i]) { flt(rng_draw(seed, i as nat), clamp01(dw)) } else { flt(rng_draw(seed, i as nat), clamp01(iw)) }
}
pub open spec fn seeded_bits(cs: Seq<Seq<char>>, seed: u64, iw: f64, dw: f64) -> Seq<bool> {
    Seq::new(cs.len(), |i: int| seeded_bit(cs, seed, iw, dw, i))
}
pub open spec fn has_corruption(out: Seq<char>, cs: Seq<Seq<char>>, iw: f64, dw: f64) -> bool {
    exists|d: Seq<bool>| #[trigger] corrupted_by(out, cs, d, iw, dw)
}

proof fn lemma_flat_pieces(cs: Seq<Seq<char>>, d: Seq<bool>, pv: Seq<Seq<char>>, k: int)
    requires 0 <= k <= cs.len(), d.len() >= k, pv.len() == k, forall|i: int| 0 <= i < k ==> #[trigger] pv[i] == flat(pc(cs, d, i)),
    ensures flat(pv) == flat(co(cs, d, k)),
    decreases k
{
    if k == 0 {
        assert(pv =~= Seq::<Seq<char>>::empty());
    } else {
        let p0 = pv.drop_last();
        lemma_flat_pieces(cs, d, p0, k - 1);
        lemma_flat_append(co(cs, d, k - 1), pc(cs, d, k - 1));
        assert(pv.last() == flat(pc(cs, d, k - 1)));
    }
}
proof fn lemma_flat1(x: Seq<char>)
    ensures flat(seq![x]) == x,
{
    assert(seq![x].drop_last() =~= Seq::<Seq<char>>::empty());
    assert(flat(seq![x].drop_last()) =~= Seq::<char>::empty());
    assert(flat(seq![x]) =~= flat(seq![x].drop_last()) + x);
    assert(Seq::<char>::empty() + x =~= x);
}
proof fn lemma_flat2(x: Seq<char>, y: Seq<char>)
    ensures flat(seq![x, y]) == x + y,
{
    assert(seq![x, y].drop_last() =~= seq![x]);
    lemma_flat1(x);
}

//@unit src/data/preprocessing.rs fn corrupt_whitespace
//@rule R22(text: &str;; info: &TextDataInfo;; VtResult<String>)
//@rule R25
//@rule R23
//@rule R24
#[verifier::loop_isolation(false)]
fn corrupt_whitespace(iw_p: f64, dw_p: f64, use_graphemes: bool, text: &str, info: &TextDataInfo) -> (res: VtResult<String>)
    requires
        // the constructor's own domain assertion (at least one probability is positive after clamping)
        fgt(clamp01(iw_p), 0.0f64) || fgt(clamp01(dw_p), 0.0f64),
    ensures
        res.is_ok(),
        has_corruption(res.unwrap()@, chars_of(text, use_graphemes), iw_p, dw_p),
        // determinism: the output is the corruption by the bits of the stream seeded with info.seed, and nothing else
        corrupted_by(res.unwrap()@, chars_of(text, use_graphemes), seeded_bits(chars_of(text, use_graphemes), info.seed, iw_p, dw_p), iw_p, dw_p),
{
    proof { axiom_f64_cmp(); }
    let ghost iw0 = iw_p;
    let ghost dw0 = dw_p;
    let iw_p = iw_p.clamp(0., 1.);
    let dw_p = dw_p.clamp(0., 1.);
    if !(iw_p > 0. || dw_p > 0.) { vt_panic(); }
    {
        let mut rng = ChaCha8Rng::seed_from_u64(info.seed);
        let cs = CS::new(text, use_graphemes);
        let vt_v = cs.vt_chars_vec();
        let mut vt_parts: Vec<String> = Vec::new();
        let ghost ncs = chars_of(text, use_graphemes);
        let ghost mut d: Seq<bool> = Seq::empty();
        for idx in 0..vt_v.len()
            invariant
                ncs == chars_of(text, use_graphemes), cs.view() == ncs, chv(vt_v@) == ncs,
                iw_p == clamp01(iw0), dw_p == clamp01(dw0),
                <f64 as vstd::std_specs::cmp::PartialOrdSpec<f64>>::obeys_partial_cmp_spec(),
                d.len() == idx, vt_parts.len() == idx,
                rng_state(rng) == (info.seed, idx as nat),
                forall|i: int| 0 <= i < idx ==> #[trigger] d[i] == seeded_bit(ncs, info.seed, iw0, dw0, i),
                forall|i: int| 0 <= i < idx ==> (#[trigger] vt_parts[i])@ == flat(pc(ncs, d, i)),
                f_zero(dw0) ==> forall|i: int| 0 <= i < idx && ch_ws(ncs[i]) ==> !#[trigger] d[i],
                f_zero(iw0) ==> forall|i: int| 0 <= i < idx && !ch_ws(ncs[i]) ==> !#[trigger] d[i],
        {
            let c = &vt_v[idx];
            let ghost d0 = d;
            proof {
                assert(c.str@ == chv(vt_v@)[idx as int]);
                reveal_strlit("");
                reveal_strlit(" ");
                axiom_space_ws();
            }
            let vt_e = {
                let r: f64 = rng.random();
                proof {
                    d = d0.push(if ch_ws(ncs[idx as int]) { flt(r, dw_p) } else { flt(r, iw_p) });
                    if f_zero(dw0) { lemma_zero_prob(r, dw0); }
                    if f_zero(iw0) { lemma_zero_prob(r, iw0); }
                    lemma_flat1(ncs[idx as int]);
                    lemma_flat2(space(), ncs[idx as int]);
                    assert(flat(Seq::<Seq<char>>::empty()) =~= Seq::<char>::empty());
                }
                if c.is_whitespace() {
                    if r < dw_p {
                        "".to_string()
                    } else {
                        c.str.to_string()
                    }
                } else if r < iw_p && idx > 0 && !cs.get_char(idx - 1).unwrap().is_whitespace() {
                    vt_string_add(" ".to_string(), c.str)
                } else {
                    c.str.to_string()
                }
            };
            proof {
                assert(vt_e@ == flat(pc(ncs, d, idx as int)));
                assert forall|i: int| 0 <= i < idx implies pc(ncs, d, i) == pc(ncs, d0, i) by {}
            }
            vt_parts.push(vt_e);
        }
        let corrupted = vt_join_empty(&vt_parts);
        proof {
            lemma_flat_pieces(ncs, d, views(vt_parts@), ncs.len() as int);
            assert(corrupted_by(corrupted@, ncs, d, iw0, dw0));
            assert(d =~= seeded_bits(ncs, info.seed, iw0, dw0));
        }
        Ok(corrupted)
    }
}
//@end

// ---------------------------------------------------------------- the property, from the contract (pure lemmas)
/// invariants of co(cs, d, k) for a clean text
pub open spec fn co_inv(cs: Seq<Seq<char>>, c: Seq<Seq<char>>, k: int) -> bool {
    &&& forall|j: int| 0 <= j < c.len() && ch_ws(#[trigger] c[j]) ==> c[j] == space()
    &&& forall|j: int| 0 <= j < c.len() - 1 && ch_ws(#[trigger] c[j]) ==> !ch_ws(c[j + 1])
    &&& (k > 0 ==> c.len() > 0 && c[0] == cs[0])
    &&& (k > 0 && !ch_ws(cs[k - 1]) ==> c.len() > 0 && c[c.len() - 1] == cs[k - 1])
    &&& strip(c) == strip(cs.subrange(0, k))
}
proof fn lemma_strip_single(x: Seq<char>)
    ensures strip(seq![x]) == (if ch_ws(x) { Seq::<Seq<char>>::empty() } else { seq![x] }),
{
    let s = seq![x];
    assert(strip_from(s, 1) =~= Seq::<Seq<char>>::empty());
    if !ch_ws(x) { assert(seq![s[0]] + strip_from(s, 1) =~= seq![x]); }
}
proof fn lemma_strip_pair(x: Seq<char>, y: Seq<char>)
    requires ch_ws(x), !ch_ws(y),
    ensures strip(seq![x, y]) == seq![y],
{
    let s = seq![x, y];
    assert(strip_from(s, 2) =~= Seq::<Seq<char>>::empty());
    assert(strip_from(s, 1) =~= seq![y] + strip_from(s, 2));
    assert(seq![y] + Seq::<Seq<char>>::empty() =~= seq![y]);
}
proof fn lemma_co_inv(cs: Seq<Seq<char>>, d: Seq<bool>, k: int)
    requires is_clean(cs), 0 <= k <= cs.len(), d.len() == cs.len(),
    ensures co_inv(cs, co(cs, d, k), k),
    decreases k
{
    if k == 0 {
        assert(co(cs, d, 0) =~= Seq::<Seq<char>>::empty());
        assert(cs.subrange(0, 0) =~= Seq::<Seq<char>>::empty());
    } else {
        lemma_co_inv(cs, d, k - 1);
        axiom_space_ws();
        let c0 = co(cs, d, k - 1);
        let x = pc(cs, d, k - 1);
        let c = co(cs, d, k);
        assert(c == c0 + x);
        let cur = cs[k - 1];
        // strip
        lemma_strip_append(c0, x, c0.len() as int);
        lemma_strip_append(c0, x, 0);
        assert(cs.subrange(0, k) =~= cs.subrange(0, k - 1) + seq![cur]);
        lemma_strip_append(cs.subrange(0, k - 1), seq![cur], 0);
        lemma_strip_single(cur);
        if x.len() == 2 { lemma_strip_pair(space(), cur); }
        if x.len() == 0 { assert(strip(x) =~= Seq::<Seq<char>>::empty()); }
        assert(strip(x) == strip(seq![cur]));
        // a whitespace character of a clean text is neither first nor preceded by whitespace
        if ch_ws(cur) {
            assert(k - 1 > 0);
            assert(!ch_ws(cs[k - 2]));
        }
        assert(co_inv(cs, c, k));
    }
}
/// T1 (both modes, character level): corrupting a clean text gives a clean character sequence with the same
/// non-whitespace characters.
proof fn theorem_corruption_clean(cs: Seq<Seq<char>>, d: Seq<bool>)
    requires is_clean(cs), d.len() == cs.len(),
    ensures is_clean(co(cs, d, cs.len() as int)), strip(co(cs, d, cs.len() as int)) == strip(cs),
{
    let n = cs.len() as int;
    lemma_co_inv(cs, d, n);
    assert(cs.subrange(0, n) =~= cs);
    let c = co(cs, d, n);
    if n > 0 {
        assert(!ch_ws(cs[0]) && !ch_ws(cs[n - 1]));
    } else {
        assert(c =~= Seq::<Seq<char>>::empty());
    }
}

/// code-point mode: the characters of a string are its code points (definition of CharString with use_graphemes = false)
pub open spec fn singles(s: Seq<char>) -> Seq<Seq<char>> { s.map(|i: int, c: char| seq![c]) }
#[verifier::external_body]
proof fn axiom_code_point_chars(s: &str)
    ensures chars_of(s, false) == singles(s@),
{}
proof fn lemma_singles_flat(c: Seq<Seq<char>>)
    requires forall|j: int| 0 <= j < c.len() ==> (#[trigger] c[j]).len() == 1,
    ensures singles(flat(c)) == c,
    decreases c.len()
{
    if c.len() == 0 {
        assert(flat(c) =~= Seq::<char>::empty());
        assert(singles(flat(c)) =~= c);
    } else {
        let c0 = c.drop_last();
        lemma_singles_flat(c0);
        let l = c.last();
        assert(l =~= seq![l[0]]);
        assert(flat(c) == flat(c0) + l);
        assert(singles(flat(c0) + l) =~= singles(flat(c0)) + seq![l]);
        assert(c0 + seq![l] =~= c);
    }
}
proof fn lemma_co_singles(cs: Seq<Seq<char>>, d: Seq<bool>, k: int)
    requires 0 <= k <= cs.len(), d.len() == cs.len(), forall|j: int| 0 <= j < cs.len() ==> (#[trigger] cs[j]).len() == 1,
    ensures forall|j: int| 0 <= j < co(cs, d, k).len() ==> (#[trigger] co(cs, d, k)[j]).len() == 1,
    decreases k
{
    if k > 0 {
        lemma_co_singles(cs, d, k - 1);
        let c0 = co(cs, d, k - 1);
        let x = pc(cs, d, k - 1);
        assert(space().len() == 1);
        assert(cs[k - 1].len() == 1);
        assert forall|j: int| 0 <= j < (c0 + x).len() implies (#[trigger] (c0 + x)[j]).len() == 1 by {
            if j < c0.len() { assert((c0 + x)[j] == c0[j]); } else { assert((c0 + x)[j] == x[j - c0.len()]); }
        }
    } else {
        assert(co(cs, d, k) =~= Seq::<Seq<char>>::empty());
    }
}
/// T2 (code-point mode): the corrupted STRING satisfies the precondition of whitespace::operations(corrupted, text)
/// (contract C10), whose postcondition + repair's give one label per input character and exact recovery of `text`.
proof fn theorem_c14_code_points(text: &str, out: &str, iw: f64, dw: f64)
    requires is_clean(chars_of(text, false)), has_corruption(out@, chars_of(text, false), iw, dw),
    ensures ops_pre(chars_of(out, false), chars_of(text, false)),
{
    let cs = chars_of(text, false);
    let d = choose|d: Seq<bool>| #[trigger] corrupted_by(out@, cs, d, iw, dw);
    let c = co(cs, d, cs.len() as int);
    axiom_code_point_chars(text);
    axiom_code_point_chars(out);
    lemma_co_singles(cs, d, cs.len() as int);
    lemma_singles_flat(c);
    theorem_corruption_clean(cs, d);
}
} // verus!
fn main() {}
