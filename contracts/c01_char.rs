// C01 -- character tokenizer: exactly one token per character; a character with more than one code point is unknown
use vstd::prelude::*;
use vstd::string::StringSliceAdditionalSpecFns;
use vstd::std_specs::hash::*;
use vstd::std_specs::iter::IteratorSpec;
use std::collections::HashMap;
use std::borrow::Borrow;
use std::hash::Hash;
use core::str::Chars;
verus! {
//@include specs/std_extra.rs
//@include specs/err.rs
//@include specs/tok.rs

// ---------------------------------------------------------------- trusted prelude (this file)
pub struct CharString<'a> { pub str: &'a str, g: bool }
pub type CS<'a> = CharString<'a>;
pub uninterp spec fn chars_of(s: Seq<char>, g: bool) -> Seq<Seq<char>>;
impl<'s> CharString<'s> {
    pub closed spec fn view(&self) -> Seq<Seq<char>> { chars_of(self.str@, self.g) }
    /// assumed: the characters of a string (code points or grapheme clusters), each with at least one code point
    #[verifier::external_body]
    pub fn new(str: &'s str, use_graphemes: bool) -> (r: CharString<'s>)
        ensures r.view() == chars_of(str@, use_graphemes), forall|k: int| 0 <= k < r.view().len() ==> (#[trigger] r.view()[k]).len() >= 1,
    { unimplemented!() }
    #[verifier::external_body]
    pub fn vt_chars_vec(&self) -> (r: Vec<Character<'s>>)
        ensures r.len() == self.view().len(), forall|k: int| 0 <= k < r.len() ==> (#[trigger] r[k]).str@ == self.view()[k],
    { unimplemented!() }
}
/// stand-in for tokenization::TokenizationInfo (only `Empty` is constructed here)
pub enum TokenizationInfo { Empty }

//@unit src/unicode.rs struct Character
//@rule derive_drop
pub struct Character<'s> {
    pub str: &'s str,
}
//@end
/// `str::len` = number of UTF-8 bytes (R11-style helper; vstd's contract only covers ASCII strings)
#[verifier::external_body]
fn vt_str_len(s: &str) -> (r: usize) ensures r == chars_utf8(s@).len() { s.len() }
impl Character<'_> {
//@unit src/unicode.rs fn byte_len impl=^impl\sCharacter<'_>$
//@rule subst(self.str.len()=>vt_str_len(self.str))
    pub fn byte_len(&self) -> (r: usize)
        ensures r == chars_utf8(self.str@).len(),
    {
        vt_str_len(self.str)
    }
//@end
//@unit src/unicode.rs fn code_points impl=^impl\sCharacter<'_>$
    pub fn code_points(&self) -> (r: Chars)
        ensures r.remaining() == self.str@,
    {
        self.str.chars()
    }
//@end
}

//@unit src/tokenization.rs enum TokenInput
enum TokenInput<'a> {
    Regular(&'a str),
    Special(&'a str),
}
//@end
//@unit src/tokenization.rs enum VocabToken
enum VocabToken<'a, Token> {
    Token(Token),
    Special(&'a str),
}
//@end
//@unit src/tokenization.rs struct CharTokenizerConfig
//@rule derive_only(Debug)
#[derive(Debug)]
pub struct CharTokenizerConfig {
    pub use_graphemes: bool,
    pub unk_token: String,
}
//@end
//@unit src/tokenization.rs type VocabTokenizer
pub type VocabTokenizer<Token, Config> = BaseTokenizer<Config, (String, Vocab<Token>)>;
//@end
//@unit src/tokenization.rs type CharTokenizer
pub type CharTokenizer = VocabTokenizer<char, CharTokenizerConfig>;
//@end

//@unit src/tokenization.rs struct Tokenization
//@rule derive_drop
pub struct Tokenization {
    pub token_ids: Vec<u32>,
    pub info: TokenizationInfo,
}
//@end
impl Tokenization {
//@unit src/tokenization.rs fn new impl=^impl\sTokenization$
    pub fn new(token_ids: Vec<u32>, info: TokenizationInfo) -> (r: Self)
        ensures r.token_ids == token_ids, r.info == info,
    {
        Tokenization { token_ids, info }
    }
//@end
}
/// A.iter().cloned().chain(B).chain(C.iter().cloned()).collect()
#[verifier::external_body]
fn vt_chain3(a: &[u32], b: Vec<u32>, c: &[u32]) -> (r: Vec<u32>)
    ensures r@ == a@ + b@ + c@,
{ unimplemented!() }
#[verifier::external_body]
pub proof fn axiom_borrow_token<T>(m: Map<T, u32>, k: &T)
    ensures
        contains_borrowed_key(m, k) <==> m.contains_key(*k),
        forall|v: u32| maps_borrowed_key_to_value(m, k, v) <==> m.contains_key(*k) && m[*k] == v,
{}

// ---------------------------------------------------------------- specification
/// abstract token: a regular character token or a special token (by spelling)
pub enum Tk { Token(char), Special(Seq<char>) }
spec fn view_tok(t: VocabToken<char>) -> Tk {
    match t { VocabToken::Token(c) => Tk::Token(c), VocabToken::Special(s) => Tk::Special(s@) }
}
/// one token per character: the code point itself if the character is a single code point, otherwise unknown
pub open spec fn tok_of_char(t: Seq<char>, unk: Seq<char>) -> Tk {
    if t.len() == 1 { Tk::Token(t[0]) } else { Tk::Special(unk) }
}
pub enum Part { Regular(Seq<char>), Special(Seq<char>) }
spec fn part_of(t: TokenInput) -> Part {
    match t { TokenInput::Regular(s) => Part::Regular(s@), TokenInput::Special(s) => Part::Special(s@) }
}
pub open spec fn toks_of_chars(f: Seq<Seq<char>>, k: int, unk: Seq<char>) -> Seq<Tk>
    decreases k
{
    if k <= 0 || k > f.len() { Seq::empty() } else { toks_of_chars(f, k - 1, unk).push(tok_of_char(f[k - 1], unk)) }
}
pub open spec fn toks_of(p: Seq<Part>, k: int, g: bool, unk: Seq<char>) -> Seq<Tk>
    decreases k
{
    if k <= 0 || k > p.len() { Seq::empty() } else {
        toks_of(p, k - 1, g, unk) + (match p[k - 1] {
            Part::Regular(s) => toks_of_chars(chars_of(s, g), chars_of(s, g).len() as int, unk),
            Part::Special(x) => seq![Tk::Special(x)],
        })
    }
}

impl CharTokenizer {
    pub closed spec fn unk(&self) -> Seq<char> { self.state.0@ }
    pub closed spec fn graphemes(&self) -> bool { self.config.use_graphemes }

//@unit src/tokenization.rs fn process_token_input impl=^impl\sVocabTokenize<char>for\sCharTokenizer$
//@rule R19
    #[verifier::loop_isolation(false)]
    fn process_token_input<'a>(
        &'a self,
        inputs: Vec<TokenInput<'a>>,
    ) -> (res: (Vec<VocabToken<'a, char>>, TokenizationInfo))
        ensures
            // exactly one token per character (special parts: one token); multi-code-point characters are unknown
            res.0@.map(|k: int, t: VocabToken<char>| view_tok(t))
                == toks_of(inputs@.map(|k: int, t: TokenInput| part_of(t)), inputs.len() as int, self.graphemes(), self.unk()),
    {
        let mut tokens = vec![];
        let ghost parts = inputs@.map(|k: int, t: TokenInput| part_of(t));
        let ghost mut done: int = 0;
        for input in it: inputs
            invariant
                parts == inputs@.map(|k: int, t: TokenInput| part_of(t)),
                done == it.index@, 0 <= done <= parts.len(),
                tokens@.map(|k: int, t: VocabToken<char>| view_tok(t)) == toks_of(parts, done, self.graphemes(), self.unk()),
        {
            let ghost t0 = tokens@.map(|k: int, t: VocabToken<char>| view_tok(t));
            proof { assert(part_of(input) == parts[done]); }
            match input {
                TokenInput::Regular(s) => {
                    let vt_v = CS::new(s, self.config.use_graphemes).vt_chars_vec();
                    let ghost f = chars_of(s@, self.graphemes());
                    for vt_i in 0..vt_v.len()
                        invariant
                            vt_v.len() == f.len(),
                            forall|k: int| 0 <= k < vt_v.len() ==> (#[trigger] vt_v[k]).str@ == f[k],
                            forall|k: int| 0 <= k < f.len() ==> (#[trigger] f[k]).len() >= 1,
                            tokens@.map(|k: int, t: VocabToken<char>| view_tok(t)) == t0 + toks_of_chars(f, vt_i as int, self.unk()),
                    {
                        let c = &vt_v[vt_i];
                        let ghost before = tokens@.map(|k: int, t: VocabToken<char>| view_tok(t));
                        let vt_e = {
                        // Character always has at least one char so this is safe
                        let mut code_points = c.code_points();
                        let char = code_points
                            .next()
                            .expect("expected at least one code point");
                        // return unk if Character has another char because
                        // our tokens in the vocab are all single char tokens
                        if code_points.next().is_some() {
                            VocabToken::Special(&self.state.0)
                        } else {
                            VocabToken::Token(char)
                        }
                    };
                        proof { assert(view_tok(vt_e) == tok_of_char(f[vt_i as int], self.unk())); }
                        tokens.push(vt_e);
                        proof {
                            assert(tokens@.map(|k: int, t: VocabToken<char>| view_tok(t)) =~= before.push(view_tok(vt_e)));
                            assert(t0 + toks_of_chars(f, vt_i as int + 1, self.unk()) =~= (t0 + toks_of_chars(f, vt_i as int, self.unk())).push(tok_of_char(f[vt_i as int], self.unk())));
                        }
                    }
                }
                TokenInput::Special(special) => {
                    tokens.push(VocabToken::Special(special));
                    proof { assert(tokens@.map(|k: int, t: VocabToken<char>| view_tok(t)) =~= t0 + seq![Tk::Special(special@)]); }
                }
            }
            proof { done = done + 1; }
        }
        (tokens, TokenizationInfo::Empty)
    }
//@end
}

pub open spec fn parts_text(p: Seq<Part>) -> Seq<char>
    decreases p.len()
{
    if p.len() == 0 { Seq::empty() } else { parts_text(p.drop_last()) + (match p.last() { Part::Regular(s) => s, Part::Special(s) => s }) }
}
impl<Config, State> BaseTokenizer<Config, State> {
    pub closed spec fn special(&self) -> Vocab<String> { self.special_vocab }
    pub closed spec fn prefix(&self) -> Seq<u32> { self.prefix_token_ids@ }
    pub closed spec fn suffix(&self) -> Seq<u32> { self.suffix_token_ids@ }
    pub closed spec fn has_pattern(&self) -> bool { self.special_token_pattern.is_some() }
    pub open spec fn special_key(&self, spelling: Seq<char>) -> String {
        choose|key: String| key@ == spelling && #[trigger] self.special().fwd().contains_key(key)
    }
    pub open spec fn special_id(&self, spelling: Seq<char>) -> Option<u32> {
        if exists|key: String| key@ == spelling && #[trigger] self.special().fwd().contains_key(key) {
            Some(self.special().fwd()[self.special_key(spelling)])
        } else { None }
    }
    /// Assumed contract of `split_input` (regex split over the escaped special-token spellings), as in c01_byte.rs
    pub open spec fn split_ok(&self, s: Seq<char>, ignore: bool, p: Seq<Part>) -> bool {
        &&& parts_text(p) == s
        &&& forall|k: int| 0 <= k < p.len() ==> (match #[trigger] p[k] { Part::Special(x) => self.special_id(x).is_some(), Part::Regular(_) => true })
        &&& (ignore || !self.has_pattern() ==> p == seq![Part::Regular(s)])
    }
    #[verifier::external_body]
    fn split_input<'a>(&self, s: &'a str, ignore_special_tokens: bool) -> (r: Vec<TokenInput<'a>>)
        ensures self.split_ok(s@, ignore_special_tokens, r@.map(|k: int, t: TokenInput| part_of(t))),
    { unimplemented!() }

//@unit src/tokenization.rs fn prefix_token_ids impl=^impl<Config,State>BaseTokenize\sfor\sBaseTokenizer
    fn prefix_token_ids(&self) -> (r: &[u32])
        ensures r@ == self.prefix(),
    {
        &self.prefix_token_ids
    }
//@end
//@unit src/tokenization.rs fn suffix_token_ids impl=^impl<Config,State>BaseTokenize\sfor\sBaseTokenizer
    fn suffix_token_ids(&self) -> (r: &[u32])
        ensures r@ == self.suffix(),
    {
        &self.suffix_token_ids
    }
//@end
//@unit src/tokenization.rs fn add_prefix_and_suffix
//@rule R6_chain3
    fn add_prefix_and_suffix(&self, token_ids: Vec<u32>) -> (r: Vec<u32>)
        ensures r@ == self.prefix() + token_ids@ + self.suffix(),
    {
        vt_chain3(self.prefix_token_ids(), token_ids, self.suffix_token_ids())
    }
//@end
}

impl CharTokenizer {
    pub closed spec fn regular(&self) -> Vocab<char> { self.state.1 }
    pub closed spec fn unk_string(&self) -> String { self.state.0 }
    /// part of the representation invariant (established by new_vocab_tokenizer: the unknown token is pushed into the special tokens)
    pub open spec fn wf_unk(&self) -> bool { self.special().fwd().contains_key(self.unk_string()) }
    pub open spec fn unk_id(&self) -> u32 { self.special().fwd()[self.unk_string()] }
    /// id of one abstract token: its vocabulary id, or the unknown id when it is outside the alphabet / not a special token
    pub open spec fn id_of(&self, t: Tk) -> u32 {
        match t {
            Tk::Token(c) => if self.regular().fwd().contains_key(c) { self.regular().fwd()[c] } else { self.unk_id() },
            Tk::Special(x) => match self.special_id(x) { Some(id) => id, None => self.unk_id() },
        }
    }

//@unit src/tokenization.rs fn unk_token_id
    pub fn unk_token_id(&self) -> (r: u32)
        requires self.wf_unk(), obeys_key_model::<String>(),
        ensures r == self.unk_id(),
    {
        proof { axiom_borrow_string_string(self.special_vocab.fwd(), &self.state.0); }
        self.special_vocab
            .token_to_id(&self.state.0)
            .expect("unk token is always in special vocab")
    }
//@end

//@unit src/tokenization.rs fn tokenize impl=^impl<Token,Config>Tokenize\sfor\sVocabTokenizer<Token,Config>
//@rule R21
//@rule closure_annot0(u32)
//@rule R4
    #[verifier::loop_isolation(false)]
    fn tokenize(&self, s: &str, ignore_special_tokens: bool) -> (res: VtResult<Tokenization>)
        requires self.wf_unk(), obeys_key_model::<String>(), obeys_key_model::<char>(),
        ensures
            res.is_ok(),
            // prefix ids, then exactly ONE id per character / special token (unknown id outside the alphabet), then suffix ids
            exists|p: Seq<Part>| #[trigger] self.split_ok(s@, ignore_special_tokens, p)
                && res.unwrap().token_ids@ == self.prefix()
                    + toks_of(p, p.len() as int, self.graphemes(), self.unk()).map(|k: int, t: Tk| self.id_of(t)) + self.suffix(),
    {
        let token_input = self.split_input(s, ignore_special_tokens);
        let ghost parts = token_input@.map(|k: int, t: TokenInput| part_of(t));
        let (tokens, tokenization_info) = self.process_token_input(token_input);
        let ghost tks = tokens@.map(|k: int, t: VocabToken<char>| view_tok(t));
        let mut token_ids = Vec::new();
        let ghost mut done: int = 0;
        for token in it: tokens.iter()
            invariant
                self.wf_unk(), obeys_key_model::<String>(), obeys_key_model::<char>(),
                tks == tokens@.map(|k: int, t: VocabToken<char>| view_tok(t)),
                done == it.index@, 0 <= done <= tokens.len(), it.seq().len() == tokens.len(),
                forall|k: int| 0 <= k < tokens.len() ==> *#[trigger] it.seq()[k] == tokens[k],
                token_ids@ == tks.subrange(0, done).map(|k: int, t: Tk| self.id_of(t)),
        {
            proof { assert(*token == tokens[done]); }
            let vt_e = {
                match token {
                    VocabToken::Special(token) => self.special_vocab.token_to_id(*token),
                    VocabToken::Token(token) => self.state.1.token_to_id(token),
                }
                .unwrap_or_else(|| -> (q: u32) ensures q == self.unk_id() { self.unk_token_id() })
                // // }
            };
            proof {
                assert(tks[done] == view_tok(tokens[done]));
                match tokens[done] {
                    VocabToken::Special(x) => {
                        axiom_borrow_string_str(self.special_vocab.fwd(), x);
                        assert forall|k1: String, k2: String| k1@ == x@ && k2@ == x@ implies k1 == k2 by { axiom_string_ext(k1, k2); }
                        assert(tks[done] == Tk::Special(x@));
                        if contains_borrowed_key(self.special_vocab.fwd(), x) {
                            let key = self.special_key(x@);
                            assert(key@ == x@ && self.special().fwd().contains_key(key));
                            assert(self.special_id(x@) == Some(self.special().fwd()[key]));
                        } else {
                            assert(self.special_id(x@).is_none());
                        }
                    }
                    VocabToken::Token(c) => {
                        axiom_borrow_token(self.state.1.fwd(), &c);
                        assert(tks[done] == Tk::Token(c));
                    }
                }
                assert(vt_e == self.id_of(tks[done]));
            }
            token_ids.push(vt_e);
            proof {
                assert(tks.subrange(0, done + 1).map(|k: int, t: Tk| self.id_of(t)) =~= tks.subrange(0, done).map(|k: int, t: Tk| self.id_of(t)).push(self.id_of(tks[done])));
                done = done + 1;
            }
        }
        proof { assert(tks.subrange(0, tks.len() as int) =~= tks); }
        Ok(Tokenization::new(
            self.add_prefix_and_suffix(token_ids),
            tokenization_info,
        ))
    }
//@end
}
} // verus!
fn main() {}
