// C01 -- character tokenizer: exactly one token per character; a character with more than one code point is unknown
use vstd::prelude::*;
use vstd::string::StringSliceAdditionalSpecFns;
use vstd::std_specs::hash::*;
use vstd::std_specs::iter::IteratorSpec;
use std::collections::HashMap;
use std::borrow::Borrow;
use std::hash::Hash;
use core::str::Chars;
verus! {
//@include specs/err.rs
//@include specs/tok.rs

// ---------------------------------------------------------------- trusted prelude (this file)
pub struct CharString<'a> { pub str: &'a str, g: bool }
pub type CS<'a> = CharString<'a>;
pub uninterp spec fn chars_of(s: Seq<char>, g: bool) -> Seq<Seq<char>>;
impl<'s> CharString<'s> {
    pub closed spec fn view(&self) -> Seq<Seq<char>> { chars_of(self.str@, self.g) }
    /// assumed: the characters of a string (code points or grapheme clusters), each with at least one code point
    #[verifier::external_body]
    pub fn new(str: &'s str, use_graphemes: bool) -> (r: CharString<'s>)
        ensures r.view() == chars_of(str@, use_graphemes), forall|k: int| 0 <= k < r.view().len() ==> (#[trigger] r.view()[k]).len() >= 1,
    { unimplemented!() }
    #[verifier::external_body]
    pub fn vt_chars_vec(&self) -> (r: Vec<Character<'s>>)
        ensures r.len() == self.view().len(), forall|k: int| 0 <= k < r.len() ==> (#[trigger] r[k]).str@ == self.view()[k],
    { unimplemented!() }
}
/// stand-in for tokenization::TokenizationInfo (only `Empty` is constructed here)
pub enum TokenizationInfo { Empty }

//@unit src/unicode.rs struct Character
//@rule derive_drop
pub struct Character<'s> {
    pub str: &'s str,
}
//@end
/// `str::len` = number of UTF-8 bytes (R11-style helper; vstd's contract only covers ASCII strings)
#[verifier::external_body]
fn vt_str_len(s: &str) -> (r: usize) ensures r == chars_utf8(s@).len() { s.len() }
impl Character<'_> {
//@unit src/unicode.rs fn byte_len impl=^impl\sCharacter<'_>$
//@rule subst(self.str.len()=>vt_str_len(self.str))
    pub fn byte_len(&self) -> (r: usize)
        ensures r == chars_utf8(self.str@).len(),
    {
        vt_str_len(self.str)
    }
//@end
//@unit src/unicode.rs fn code_points impl=^impl\sCharacter<'_>$
    pub fn code_points(&self) -> (r: Chars)
        ensures r.remaining() == self.str@,
    {
        self.str.chars()
    }
//@end
}

//@unit src/tokenization.rs enum TokenInput
enum TokenInput<'a> {
    Regular(&'a str),
    Special(&'a str),
}
//@end
//@unit src/tokenization.rs enum VocabToken
enum VocabToken<'a, Token> {
    Token(Token),
    Special(&'a str),
}
//@end
//@unit src/tokenization.rs struct CharTokenizerConfig
//@rule derive_only(Debug)
#[derive(Debug)]
pub struct CharTokenizerConfig {
    pub use_graphemes: bool,
    pub unk_token: String,
}
//@end
//@unit src/tokenization.rs type VocabTokenizer
pub type VocabTokenizer<Token, Config> = BaseTokenizer<Config, (String, Vocab<Token>)>;
//@end
//@unit src/tokenization.rs type CharTokenizer
pub type CharTokenizer = VocabTokenizer<char, CharTokenizerConfig>;
//@end

// ---------------------------------------------------------------- specification
/// abstract token: a regular character token or a special token (by spelling)
pub enum Tk { Token(char), Special(Seq<char>) }
spec fn view_tok(t: VocabToken<char>) -> Tk {
    match t { VocabToken::Token(c) => Tk::Token(c), VocabToken::Special(s) => Tk::Special(s@) }
}
/// one token per character: the code point itself if the character is a single code point, otherwise unknown
pub open spec fn tok_of_char(t: Seq<char>, unk: Seq<char>) -> Tk {
    if t.len() == 1 { Tk::Token(t[0]) } else { Tk::Special(unk) }
}
pub enum Part { Regular(Seq<char>), Special(Seq<char>) }
spec fn part_of(t: TokenInput) -> Part {
    match t { TokenInput::Regular(s) => Part::Regular(s@), TokenInput::Special(s) => Part::Special(s@) }
}
pub open spec fn toks_of_chars(f: Seq<Seq<char>>, k: int, unk: Seq<char>) -> Seq<Tk>
    decreases k
{
    if k <= 0 || k > f.len() { Seq::empty() } else { toks_of_chars(f, k - 1, unk).push(tok_of_char(f[k - 1], unk)) }
}
pub open spec fn toks_of(p: Seq<Part>, k: int, g: bool, unk: Seq<char>) -> Seq<Tk>
    decreases k
{
    if k <= 0 || k > p.len() { Seq::empty() } else {
        toks_of(p, k - 1, g, unk) + (match p[k - 1] {
            Part::Regular(s) => toks_of_chars(chars_of(s, g), chars_of(s, g).len() as int, unk),
            Part::Special(x) => seq![Tk::Special(x)],
        })
    }
}

impl CharTokenizer {
    pub closed spec fn unk(&self) -> Seq<char> { self.state.0@ }
    pub closed spec fn graphemes(&self) -> bool { self.config.use_graphemes }

//@unit src/tokenization.rs fn process_token_input impl=^impl\sVocabTokenize<char>for\sCharTokenizer$
//@rule R19
    fn process_token_input<'a>(
        &'a self,
        inputs: Vec<TokenInput<'a>>,
    ) -> (res: (Vec<VocabToken<'a, char>>, TokenizationInfo))
        ensures
            // exactly one token per character (special parts: one token); multi-code-point characters are unknown
            res.0@.map(|k: int, t: VocabToken<char>| view_tok(t))
                == toks_of(inputs@.map(|k: int, t: TokenInput| part_of(t)), inputs.len() as int, self.graphemes(), self.unk()),
    {
        let mut tokens = vec![];
        let ghost parts = inputs@.map(|k: int, t: TokenInput| part_of(t));
        let ghost mut done: int = 0;
        for input in it: inputs
            invariant
                parts == inputs@.map(|k: int, t: TokenInput| part_of(t)),
                done == it.index@, 0 <= done <= parts.len(),
                tokens@.map(|k: int, t: VocabToken<char>| view_tok(t)) == toks_of(parts, done, self.graphemes(), self.unk()),
        {
            let ghost t0 = tokens@.map(|k: int, t: VocabToken<char>| view_tok(t));
            proof { assert(part_of(input) == parts[done]); }
            match input {
                TokenInput::Regular(s) => {
                    let vt_v = CS::new(s, self.config.use_graphemes).vt_chars_vec();
                    let ghost f = chars_of(s@, self.graphemes());
                    for vt_i in 0..vt_v.len()
                        invariant
                            vt_v.len() == f.len(),
                            forall|k: int| 0 <= k < vt_v.len() ==> (#[trigger] vt_v[k]).str@ == f[k],
                            forall|k: int| 0 <= k < f.len() ==> (#[trigger] f[k]).len() >= 1,
                            tokens@.map(|k: int, t: VocabToken<char>| view_tok(t)) == t0 + toks_of_chars(f, vt_i as int, self.unk()),
                    {
                        let c = &vt_v[vt_i];
                        let ghost before = tokens@.map(|k: int, t: VocabToken<char>| view_tok(t));
                        let vt_e = {
                        // Character always has at least one char so this is safe
                        let mut code_points = c.code_points();
                        let char = code_points
                            .next()
                            .expect("expected at least one code point");
                        // return unk if Character has another char because
                        // our tokens in the vocab are all single char tokens
                        if code_points.next().is_some() {
                            VocabToken::Special(&self.state.0)
                        } else {
                            VocabToken::Token(char)
                        }
                    };
                        proof { assert(view_tok(vt_e) == tok_of_char(f[vt_i as int], self.unk())); }
                        tokens.push(vt_e);
                        proof {
                            assert(tokens@.map(|k: int, t: VocabToken<char>| view_tok(t)) =~= before.push(view_tok(vt_e)));
                            assert(t0 + toks_of_chars(f, vt_i as int + 1, self.unk()) =~= (t0 + toks_of_chars(f, vt_i as int, self.unk())).push(tok_of_char(f[vt_i as int], self.unk())));
                        }
                    }
                }
                TokenInput::Special(special) => {
                    tokens.push(VocabToken::Special(special));
                    proof { assert(tokens@.map(|k: int, t: VocabToken<char>| view_tok(t)) =~= t0 + seq![Tk::Special(special@)]); }
                }
            }
            proof { done = done + 1; }
        }
        (tokens, TokenizationInfo::Empty)
    }
//@end
}
} // verus!
fn main() {}
