// C15 -- spelling-corruption context providers: no arithmetic fault at word start / end, correct context looked up
use vstd::prelude::*;
use std::collections::HashMap;
verus! {
//@include specs/std_extra.rs
//@include specs/err.rs
//@include specs/chars.rs

// ---------------------------------------------------------------- trusted prelude (this file)
/// stand-in for std::borrow::Cow: the units only construct `Cow::Borrowed` (as hash-map lookup keys)
#[derive(PartialEq, Eq, Hash)]
pub enum Cow<'a, B: ?Sized> { Borrowed(&'a B) }

impl<'s> CharString<'s> {
    /// assumed contract of CharString::get (its index arithmetic is verified in c16_windows.rs): the n-th character text
    #[verifier::external_body]
    pub fn get(&self, n: usize) -> (r: Option<&'s str>)
        ensures r.is_some() <==> n < self.view().len(),
            r.is_some() ==> r.unwrap()@ == self.view()[n as int],
    { unimplemented!() }
}

/// word-boundary markers
pub open spec fn bow() -> Seq<char> { "<bow>"@ }
pub open spec fn eow() -> Seq<char> { "<eow>"@ }
/// text of character k of the word, or the begin / end marker outside it
pub open spec fn ctx_at(f: Seq<Seq<char>>, k: int) -> Seq<char> {
    if k < 0 { bow() } else if k >= f.len() { eow() } else { f[k] }
}

//@unit src/corrupt.rs type EditsAndWeights
pub type EditsAndWeights = (Vec<String>, Vec<f64>);
//@end
//@unit src/corrupt.rs type InsertContext
pub type InsertContext<'a> = (Cow<'a, str>, Cow<'a, str>);
//@end
//@unit src/corrupt.rs struct InsertEdits
pub struct InsertEdits<'a> {
    pub insertions: HashMap<InsertContext<'a>, EditsAndWeights>,
}
//@end
//@unit src/corrupt.rs type ReplaceContext
pub type ReplaceContext<'a> = (Cow<'a, str>, Cow<'a, str>, Cow<'a, str>);
//@end
//@unit src/corrupt.rs struct ReplaceEdits
pub struct ReplaceEdits<'a> {
    pub replacements: HashMap<ReplaceContext<'a>, EditsAndWeights>,
}
//@end

impl<'s> InsertEdits<'s> {
//@unit src/corrupt.rs fn get_edits impl=^impl<'s>GetEdits<'s>for\sInsertEdits<'s>$
    fn get_edits<'a: 's>(&'s self, cs: &CS<'a>, idx: &usize) -> Option<&'s EditsAndWeights>
        // for EVERY position and every word, including the empty one: no arithmetic fault, no panic
    {
        let idx = *idx.min(&cs.len());
        let ghost f = cs.view();
        let prev = if idx > 0 { cs.get(idx - 1) } else { None }.unwrap_or("<bow>");
        let s = cs.get(idx).unwrap_or("<eow>");
        // the context that is looked up is (character before the insertion point or <bow>, character at it or <eow>)
        assert(prev@ == ctx_at(f, idx as int - 1));
        assert(s@ == ctx_at(f, idx as int));
        let ctx = (Cow::Borrowed(prev), Cow::Borrowed(s));
        let insertions = self.insertions.get(&ctx);
        insertions
    }
//@end
}

impl<'s> ReplaceEdits<'s> {
//@unit src/corrupt.rs fn get_edits impl=^impl<'s>GetEdits<'s>for\sReplaceEdits<'s>$
    fn get_edits<'a: 's>(&'s self, cs: &CS<'a>, idx: &usize) -> Option<&'s EditsAndWeights>
        // a replacement needs a character to replace: non-empty word (the `expect` documents it); positions are < usize::MAX
        requires cs.view().len() > 0, cs.view().len() < usize::MAX,
    {
        let idx = *idx.min(&cs.len().saturating_sub(1));
        let ghost f = cs.view();
        let prev = if idx > 0 { cs.get(idx - 1) } else { None }.unwrap_or("<bow>");
        let s = cs.get(idx).expect("cannot replace empty string");
        let next = cs.get(idx + 1).unwrap_or("<eow>");
        assert(prev@ == ctx_at(f, idx as int - 1));
        assert(s@ == f[idx as int]);
        assert(next@ == ctx_at(f, idx as int + 1));
        let ctx = (Cow::Borrowed(prev), Cow::Borrowed(s), Cow::Borrowed(next));
        let replacements = self.replacements.get(&ctx);
        replacements
    }
//@end
}

//@unit src/corrupt.rs struct DeleteEdits
pub struct DeleteEdits<F = fn(&str) -> bool> {
    pub full_delete: bool,
    pub can_delete: F,
}
//@end

impl<F> DeleteEdits<F>
where
    F: Fn(&str) -> bool,
{
//@unit src/corrupt.rs fn can_edit impl=^impl<F>CanEdit\sfor\sDeleteEdits<F>
    fn can_edit(&self, cs: &CS, idx: &usize) -> (r: bool)
        requires forall|t: &str| #[trigger] self.can_delete.requires((t,)),
        ensures
            // never outside the word, never the last remaining character unless full deletion is allowed
            r ==> *idx < cs.view().len() && (self.full_delete || cs.view().len() > 1),
            r ==> exists|t: &str| t@ == cs.view()[*idx as int] && #[trigger] self.can_delete.ensures((t,), true),
    {
        if !self.full_delete && cs.len() <= 1 {
            false
        } else if let Some(s) = cs.get(*idx) {
            (self.can_delete)(s)
        } else {
            false
        }
    }
//@end
}

//@unit src/corrupt.rs struct SwapEdits
pub struct SwapEdits<F = fn(&str, &str) -> bool> {
    pub can_swap: F,
}
//@end

impl<F> SwapEdits<F>
where
    F: Fn(&str, &str) -> bool,
{
//@unit src/corrupt.rs fn can_edit impl=^impl<F>CanEdit\sfor\sSwapEdits<F>
//@rule R10(idx)
    fn can_edit(&self, cs: &CS, idx: &usize) -> (r: bool)
        requires forall|t: &str, u: &str| #[trigger] self.can_swap.requires((t, u)), *idx < usize::MAX,
        ensures
            // both swapped positions lie inside the word
            r ==> *idx + 1 < cs.view().len(),
            r ==> exists|t: &str, u: &str| t@ == cs.view()[*idx as int] && u@ == cs.view()[*idx as int + 1] && #[trigger] self.can_swap.ensures((t, u), true),
    {
        match (cs.get(*idx), cs.get(*idx + 1)) {
            (Some(s), Some(s_next)) => (self.can_swap)(s, s_next),
            _ => false,
        }
    }
//@end
}
} // verus!
fn main() {}
