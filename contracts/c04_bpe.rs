// C04 -- BPE tokenizer id maps against one spec function `vocab_at`
use vstd::prelude::*;
use vstd::string::StringSliceAdditionalSpecFns;
use vstd::std_specs::hash::*;
use std::collections::HashMap;
use std::borrow::Borrow;
use std::hash::Hash;
use std::path::PathBuf;
verus! {
//@include specs/std_extra.rs
//@include specs/err.rs
//@include specs/tok.rs
#[verifier::external_type_specification]
#[verifier::external_body]
pub struct ExPathBuf(std::path::PathBuf);
#[derive(Debug)]
pub struct RegexError;
impl From<RegexError> for AnyhowError {
    #[verifier::external_body]
    fn from(e: RegexError) -> AnyhowError { AnyhowError }
}
impl Regex {
    #[verifier::external_body]
    pub fn new(p: &str) -> (r: Result<Regex, RegexError>) { unimplemented!() }
}
pub const SPLIT_WORD_WHITESPACE_PATTERN: &'static str = "";   // text::SPLIT_WORD_WHITESPACE_PATTERN (only handed to Regex::new)

//@unit src/tokenization.rs struct BPETokenizerConfig
//@rule derive_only(Debug)
#[derive(Debug)]
pub struct BPETokenizerConfig {
    pub merge_file: PathBuf,
    pub max_vocab_size: Option<usize>,
    pub use_graphemes: bool,
}
//@end
//@unit src/tokenization.rs struct SpecialConfig
//@rule derive_only(Debug)
#[derive(Debug)]
pub struct SpecialConfig {
    pub pad: String,
    pub tokens: Vec<String>,
    pub prefix: Vec<String>,
    pub suffix: Vec<String>,
}
//@end

//@unit src/tokenization.rs type MergeOps
pub type MergeOps = HashMap<Vec<u8>, u32>;
//@end

//@unit src/tokenization.rs type BPETokenizer
pub type BPETokenizer = BaseTokenizer<BPETokenizerConfig, (MergeOps, Vec<Vec<u8>>, Regex)>;
//@end

// ---------------------------------------------------------------- specification (from the property statement)
impl BPETokenizer {
    pub closed spec fn merges(&self) -> Map<Vec<u8>, u32> { self.state.0@ }
    pub closed spec fn table(&self) -> Seq<Vec<u8>> { self.state.1@ }
    pub closed spec fn special(&self) -> Vocab<String> { self.special_vocab }

    pub open spec fn merge_key_at(&self, k: int) -> bool {
        exists|key: Vec<u8>| #[trigger] self.merges().contains_key(key) && key@ == self.table()[k]@ && self.merges()[key] == k - 256
    }
    /// Representation invariant established by `BPETokenizer::new` / `new_base_tokenizer` (assumed, see trusted base):
    /// `table` = the 256 single bytes followed by the merges in id order ("position = 256 + merge id"),
    /// special ids follow the table contiguously and the special maps are mutually inverse.
    pub open spec fn wf(&self) -> bool {
        &&& self.table().len() >= 256
        &&& self.table().len() == 256 + self.merges().len()
        &&& forall|b: int| 0 <= b < 256 ==> (#[trigger] self.table()[b])@ == seq![b as u8]
        &&& forall|k: int| 256 <= k < self.table().len() ==> (#[trigger] self.table()[k])@.len() >= 2
        &&& forall|key: Vec<u8>| #[trigger] self.merges().contains_key(key) ==>
                256 + self.merges()[key] < self.table().len() && self.table()[256 + self.merges()[key]]@ == key@
        &&& forall|k: int| 256 <= k < self.table().len() ==> #[trigger] self.merge_key_at(k)
        &&& forall|i: int, j: int| 0 <= i < j < self.table().len() ==> self.table()[i]@ != self.table()[j]@
        &&& self.special().inverse()
        &&& self.table().len() + self.special().fwd().len() <= u32::MAX
        &&& forall|id: u32| #[trigger] self.special().rev().contains_key(id) <==>
                self.table().len() <= id < self.table().len() + self.special().fwd().len()
        // configuration precondition: no special spelling is also a regular token
        &&& forall|id: u32, k: int| self.special().rev().contains_key(id) && 0 <= k < self.table().len() ==>
                string_bytes(#[trigger] self.special().rev()[id]) != (#[trigger] self.table()[k])@
    }

    /// everything in wf() that the constructor can establish (all but the configuration precondition)
    pub open spec fn wf_built(&self) -> bool {
        &&& self.table().len() >= 256
        &&& self.table().len() == 256 + self.merges().len()
        &&& forall|b: int| 0 <= b < 256 ==> (#[trigger] self.table()[b])@ == seq![b as u8]
        &&& forall|key: Vec<u8>| #[trigger] self.merges().contains_key(key) ==>
                256 + self.merges()[key] < self.table().len() && self.table()[256 + self.merges()[key]]@ == key@
        &&& self.special().inverse()
        &&& self.table().len() + self.special().fwd().len() <= u32::MAX
        &&& forall|id: u32| #[trigger] self.special().rev().contains_key(id) <==>
                self.table().len() <= id < self.table().len() + self.special().fwd().len()
    }
    /// THE oracle: the token (byte string) of an id, for every u32.
    pub open spec fn vocab_at(&self, id: u32) -> Option<Seq<u8>> {
        if id < 256 { Some(seq![id as u8]) }
        else if id < self.table().len() { Some(self.table()[id as int]@) }
        else if id < self.table().len() + self.special().fwd().len() { Some(string_bytes(self.special().rev()[id])) }
        else { None }
    }
    pub open spec fn spec_vocab_size(&self) -> int { (self.table().len() + self.special().fwd().len()) as int }
}

impl BPETokenizer {
//@unit src/tokenization.rs fn vocab_size impl=^impl\sTokenize\sfor\sBPETokenizer$
    fn vocab_size(&self) -> (r: usize)
        requires self.wf(), obeys_key_model::<String>(),
        ensures r == self.spec_vocab_size(),
            forall|id: u32| self.vocab_at(id).is_some() <==> id < r,
    {
        self.state.1.len() + self.special_vocab.len()
    }
//@end

//@unit src/tokenization.rs fn id_to_token impl=^impl\sTokenize\sfor\sBPETokenizer$
//@rule closure_annot(s ;; &String ;; Vec<u8>)
    fn id_to_token(&self, id: u32) -> (r: Option<Vec<u8>>)
        requires self.wf(),
        ensures (match r { Some(v) => self.vocab_at(id) == Some(v@), None => self.vocab_at(id).is_none() }),
    {
        if id < 256 {
            Some(vec![id as u8])
        } else if id < u32::try_from(self.state.1.len()).ok()? {
            Some(self.state.1[usize::try_from(id).ok()?].clone())
        } else {
            self.special_vocab.id_to_token(&id).map(|s: &String| -> (q: Vec<u8>) ensures q@ == string_bytes(*s) { proof { axiom_string_tok_bytes(*s); } s.to_bytes() })
        }
    }
//@end

//@unit src/tokenization.rs fn token_to_id impl=^impl\sTokenize\sfor\sBPETokenizer$
    fn token_to_id(&self, token: &str) -> (r: Option<u32>)
        requires self.wf(), obeys_key_model::<String>(), obeys_key_model::<Vec<u8>>(),
        ensures
            // sound: a returned id carries exactly this token
            r.is_some() ==> self.vocab_at(r.unwrap()) == Some(chars_utf8(token@)),
            // complete: every id whose token is this UTF-8 string is found ("maps every UTF-8 token back to its id")
            forall|id: u32| self.vocab_at(id) == Some(chars_utf8(token@)) ==> r == Some(id),
    {
        proof {
            axiom_borrow_string_str(self.special_vocab.fwd(), token);
            axiom_str_bytes(token);
        }
        let ghost want = chars_utf8(token@);
        if let Some(id) = self.special_vocab.token_to_id(token) {
            proof {
                let key = choose|key: String| key@ == token@ && #[trigger] self.special().fwd().contains_key(key) && self.special().fwd()[key] == id;
                assert(self.special().rev().contains_key(id) && self.special().rev()[id] == key);
                assert(self.vocab_at(id) == Some(want));
                assert forall|id2: u32| self.vocab_at(id2) == Some(want) implies id2 == id by {
                    if id2 < self.table().len() {
                        assert(string_bytes(self.special().rev()[id]) != self.table()[id2 as int]@);
                        if id2 < 256 { assert(self.table()[id2 as int]@ == seq![id2 as u8]); }
                    } else {
                        assert(self.special().rev().contains_key(id2));
                        axiom_utf8_injective(self.special().rev()[id2]@, key@);
                        axiom_string_ext(self.special().rev()[id2], key);
                    }
                }
            }
            Some(id)
        } else {
            let bytes = token.as_bytes();
            proof {
                axiom_borrow_vec_slice(self.state.0@, bytes);
                // no special token is spelled like `token`
                assert forall|id2: u32| self.special().rev().contains_key(id2) implies self.vocab_at(id2) != Some(want) by {
                    if self.vocab_at(id2) == Some(want) {
                        axiom_utf8_injective(self.special().rev()[id2]@, token@);
                        assert(self.special().fwd().contains_key(self.special().rev()[id2]));
                    }
                }
            }
            if bytes.len() == 1 {
                proof {
                    assert(want =~= seq![bytes[0]]);
                    assert forall|id2: u32| self.vocab_at(id2) == Some(want) implies id2 == bytes[0] as u32 by {
                        if id2 < 256 {
                            assert(seq![id2 as u8][0] == want[0]);
                        } else if id2 < self.table().len() {
                            assert(self.table()[id2 as int]@.len() >= 2);
                        } else {
                            assert(self.special().rev().contains_key(id2));
                        }
                    }
                }
                Some(bytes[0] as u32)
            } else {
                proof {
                    if !contains_borrowed_key(self.state.0@, bytes) {
                        assert forall|id2: u32| self.vocab_at(id2) != Some(want) by {
                            if id2 < 256 {
                                assert(seq![id2 as u8].len() == 1);
                            } else if id2 < self.table().len() {
                                assert(self.merge_key_at(id2 as int));
                            } else if id2 < self.table().len() + self.special().fwd().len() {
                                assert(self.special().rev().contains_key(id2));
                            }
                        }
                    }
                }
                let merge_id = self.state.0.get(bytes)?;
                proof {
                    let key = choose|key: Vec<u8>| key@ == bytes@ && #[trigger] self.merges().contains_key(key) && self.merges()[key] == *merge_id;
                    let mid = (256 + *merge_id) as u32;
                    assert(self.table()[mid as int]@ == want);
                    assert forall|id2: u32| self.vocab_at(id2) == Some(want) implies id2 == mid by {
                        if id2 < 256 {
                            assert(seq![id2 as u8].len() == 1);
                        } else if id2 < self.table().len() {
                            if id2 < mid { assert(self.table()[id2 as int]@ != self.table()[mid as int]@); }
                            if mid < id2 { assert(self.table()[mid as int]@ != self.table()[id2 as int]@); }
                        } else {
                            assert(self.special().rev().contains_key(id2));
                        }
                    }
                }
                Some(256 + *merge_id)
            }
        }
    }
//@end
}

// ---------------------------------------------------------------- the constructor establishes the invariant
/// a well-formed merge table (the property's domain): ids are exactly 0..n-1, every entry has at least two bytes
pub open spec fn has_id(m: Map<Vec<u8>, u32>, id: int) -> bool { exists|key: Vec<u8>| #[trigger] m.contains_key(key) && m[key] == id }
pub open spec fn merges_wf(m: Map<Vec<u8>, u32>) -> bool {
    &&& forall|key: Vec<u8>| #[trigger] m.contains_key(key) ==> m[key] < m.len() && key@.len() >= 2
    &&& forall|id: int| 0 <= id < m.len() ==> #[trigger] has_id(m, id)
    &&& forall|k1: Vec<u8>, k2: Vec<u8>| m.contains_key(k1) && m.contains_key(k2) && (m[k1] == m[k2] || k1@ == k2@) ==> k1 == k2
}
// R6 idioms of BPETokenizer::new
/// `MergeOps::load(path)` (rmp_serde): domain assumption -- a loaded table is well formed
#[verifier::external_body]
fn vt_load_merges(p: &PathBuf) -> (r: VtResult<MergeOps>)
    ensures r.is_ok() ==> merges_wf(r.unwrap()@) && 256 + r.unwrap()@.len() <= u32::MAX,   // domain: the ids fit u32
{ unimplemented!() }
/// `m.retain(|_, &mut id| id < limit)`: keeps exactly the entries with id < limit; a well-formed table stays well formed
/// (ids 0..min(n, limit)-1: cardinality of a finite map restricted to an initial segment of its ids)
#[verifier::external_body]
fn vt_retain_below(m: &mut MergeOps, limit: u32)
    ensures
        forall|key: Vec<u8>| #[trigger] final(m)@.contains_key(key) <==> old(m)@.contains_key(key) && old(m)@[key] < limit,
        forall|key: Vec<u8>| #[trigger] final(m)@.contains_key(key) ==> final(m)@[key] == old(m)@[key],
        merges_wf(old(m)@) ==> merges_wf(final(m)@),
        final(m)@.len() <= old(m)@.len(),
{ unimplemented!() }
/// `m.iter().sorted_by_key(|&(_, id)| id)` projected to the keys: the key with id k at position k
#[verifier::external_body]
fn vt_keys_sorted_by_id(m: &MergeOps) -> (r: Vec<&Vec<u8>>)
    requires merges_wf(m@),
    ensures r.len() == m@.len(),
        forall|k: int| 0 <= k < r.len() ==> m@.contains_key(*#[trigger] r[k]) && m@[*r[k]] == k,
{ unimplemented!() }

impl<Config, State> BaseTokenizer<Config, State> {
    pub closed spec fn st(&self) -> State { self.state }
    pub closed spec fn sp(&self) -> Vocab<String> { self.special_vocab }
    /// Assumed contract of `new_base_tokenizer` / `Vocab::build` (itertools unique/enumerate, regex escape): the state is
    /// stored as given; the special vocabulary gets the ids special_offset, special_offset+1, ... (contiguous), the two
    /// maps are mutually inverse.
    #[verifier::external_body]
    fn new_base_tokenizer(special_offset: u32, special_config: SpecialConfig, config: Config, state: State) -> (r: VtResult<Self>)
        ensures r.is_ok() ==> ({
            let t = r.unwrap();
            &&& t.st() == state
            &&& t.sp().inverse()
            &&& special_offset + t.sp().fwd().len() <= u32::MAX
            &&& forall|id: u32| #[trigger] t.sp().rev().contains_key(id) <==> special_offset <= id < special_offset + t.sp().fwd().len()
        }),
    { unimplemented!() }
}

impl BPETokenizer {
//@unit src/tokenization.rs fn new impl=^impl\sBPETokenizer$
//@rule R4
//@rule R6_bpe_new
//@rule R16(vt_keys_sorted_by_id ;; vt_keys)
    #[verifier::loop_isolation(false)]
    pub fn new(config: BPETokenizerConfig, special_config: SpecialConfig) -> (res: VtResult<Self>)
        requires obeys_key_model::<Vec<u8>>(),
        ensures
            // the representation invariant of the id maps, except the configuration precondition
            // "no special spelling is also a regular token" (cannot be established by the constructor)
            res.is_ok() ==> res.unwrap().wf_built(),
    {
        let mut merge_ops = vt_load_merges(&config.merge_file)?;
        if let Some(limit) = config.max_vocab_size {
            // to limit vocab size we filter out all merges with an id higher than the limit
            let limit = limit
                .saturating_sub(special_config.tokens.len())
                .saturating_sub(256) as u32;
            vt_retain_below(&mut merge_ops, limit);
        }
        let mut reverse_merge_ops: Vec<Vec<u8>> = Vec::new();
        for b in 0..256
            invariant
                reverse_merge_ops.len() == b,
                forall|k: int| 0 <= k < b ==> (#[trigger] reverse_merge_ops[k])@ == seq![k as u8],
        {
            reverse_merge_ops.push(vec![b as u8]);
        }
        let ghost nm = merge_ops@.len();
        let ghost mo = merge_ops@;
        let ghost mut done: int = 0;
        let vt_keys = vt_keys_sorted_by_id(&merge_ops);
        let ghost keys = vt_keys@;
        for bytes in it: vt_keys
            invariant
                merges_wf(mo), mo == merge_ops@, nm == mo.len(), keys.len() == nm,
                done == it.index@, 0 <= done <= nm, it.seq() == keys,
                forall|k: int| 0 <= k < nm ==> mo.contains_key(*#[trigger] keys[k]) && mo[*keys[k]] == k,
                reverse_merge_ops.len() == 256 + done,
                forall|k: int| 0 <= k < 256 ==> (#[trigger] reverse_merge_ops[k])@ == seq![k as u8],
                forall|k: int| 0 <= k < done ==> (#[trigger] reverse_merge_ops[256 + k])@ == (*keys[k])@,
        {
            reverse_merge_ops.push(bytes.to_vec());
            proof { done = done + 1; }
        }
        proof {
            // every table position >= 256 holds the key with that merge id, and vice versa
            assert forall|key: Vec<u8>| #[trigger] mo.contains_key(key) implies
                256 + mo[key] < reverse_merge_ops.len() && reverse_merge_ops[256 + mo[key]]@ == key@ by {
                let id = mo[key] as int;
                // position 256 + id was filled from the key with id `id`, which is `key` (ids are injective)
                assert(mo.contains_key(*keys[id]) && mo[*keys[id]] == id);
                assert(reverse_merge_ops[256 + id]@ == (*keys[id])@);
            }
        }
        Self::new_base_tokenizer(
            reverse_merge_ops.len() as u32,
            special_config,
            config,
            (
                merge_ops,
                reverse_merge_ops,
                Regex::new(SPLIT_WORD_WHITESPACE_PATTERN)?,
            ),
        )
    }
//@end
}
// ---------------------------------------------------------------- de_tokenize prelude
#[verifier::external_type_specification]
#[verifier::external_body]
pub struct ExFromUtf8Error(std::string::FromUtf8Error);
impl From<std::string::FromUtf8Error> for AnyhowError {
    #[verifier::external_body]
    fn from(e: std::string::FromUtf8Error) -> AnyhowError { AnyhowError }
}
/// well-formed UTF-8
pub uninterp spec fn is_utf8(b: Seq<u8>) -> bool;
pub assume_specification[ String::from_utf8 ](v: Vec<u8>) -> (r: Result<String, std::string::FromUtf8Error>)
    ensures r.is_ok() <==> is_utf8(v@), r.is_ok() ==> string_bytes(r.unwrap()) == v@;
/// Vec<u8>::extend(&[u8]) / extend(&Vec<u8>)
#[verifier::external_body]
fn vt_extend_slice(v: &mut Vec<u8>, s: &[u8])
    ensures final(v)@ == old(v)@ + s@,
{ v.extend(s) }

impl BPETokenizer {
    /// bytes spelled by an id sequence: regular ids spell their table entry, special ids their spelling when kept
    pub open spec fn dec(&self, ids: Seq<u32>, keep: bool) -> Seq<u8>
        decreases ids.len()
    {
        if ids.len() == 0 { Seq::empty() } else {
            self.dec(ids.drop_last(), keep) + (
                if ids.last() < self.table().len() { self.table()[ids.last() as int]@ }
                else if keep && self.special().rev().contains_key(ids.last()) { string_bytes(self.special().rev()[ids.last()]) }
                else { Seq::empty() })
        }
    }
//@unit src/tokenization.rs fn de_tokenize impl=^impl\sTokenize\sfor\sBPETokenizer$
//@rule R4
//@rule R6_extend_ref
//@rule R6_extend_as_bytes
    #[verifier::loop_isolation(false)]
    fn de_tokenize(
        &self,
        token_ids: &[u32],
        ignore_special_tokens: bool,
    ) -> (res: VtResult<String>)
        requires self.table().len() <= u32::MAX,
        ensures
            // the decoded string spells exactly the table entries of the ids (special spellings when kept)
            res.is_ok() ==> string_bytes(res.unwrap()) == self.dec(token_ids@, !ignore_special_tokens),
            // an unknown special id is an error, never a panic, when special tokens are kept
            (!ignore_special_tokens && exists|k: int| 0 <= k < token_ids.len() && token_ids[k] >= self.table().len() && !self.special().rev().contains_key(#[trigger] token_ids[k]))
                ==> res.is_err(),
            // total on valid input
            (ignore_special_tokens || forall|k: int| 0 <= k < token_ids.len() && token_ids[k] >= self.table().len() ==> self.special().rev().contains_key(#[trigger] token_ids[k]))
                && is_utf8(self.dec(token_ids@, !ignore_special_tokens)) ==> res.is_ok(),
    {
        let mut bytes = Vec::new();
        let num_merge_ops = self.state.1.len() as u32;
        let ghost mut done: int = 0;
        proof { assert(token_ids@.subrange(0, 0) =~= Seq::<u32>::empty()); }
        for token_id in it: token_ids
            invariant
                done == it.index@, 0 <= done <= token_ids.len(), num_merge_ops == self.table().len(), self.table().len() <= u32::MAX,
                bytes@ == self.dec(token_ids@.subrange(0, done), !ignore_special_tokens),
                !ignore_special_tokens ==> forall|k: int| 0 <= k < done && token_ids[k] >= self.table().len() ==> self.special().rev().contains_key(#[trigger] token_ids[k]),
        {
            proof {
                assert(*token_id == token_ids[done]);
                assert(token_ids@.subrange(0, done + 1).drop_last() =~= token_ids@.subrange(0, done));
                assert(token_ids@.subrange(0, done + 1).last() == token_ids[done]);
            }
            if *token_id < num_merge_ops {
                vt_extend_slice(&mut bytes, &self.state.1[*token_id as usize]);
            } else if !ignore_special_tokens {
                vt_extend_slice(&mut bytes, self.special_vocab
                        .id_to_token(token_id)
                        .ok_or_else(|| vt_anyhow())?
                        .as_bytes());
            }
            proof {
                assert(bytes@ =~= self.dec(token_ids@.subrange(0, done + 1), !ignore_special_tokens));
                done = done + 1;
            }
        }
        proof { assert(token_ids@.subrange(0, token_ids.len() as int) =~= token_ids@); }
        Ok(String::from_utf8(bytes)?)
    }
//@end
}
/// C04: decoding a single regular id yields exactly that token's bytes
proof fn lemma_dec_single(t: &BPETokenizer, id: u32, keep: bool)
    requires id < t.table().len(),
    ensures t.dec(seq![id], keep) == t.table()[id as int]@,
{
    assert(seq![id].drop_last() =~= Seq::<u32>::empty());
    assert(t.dec(seq![id].drop_last(), keep) =~= Seq::<u8>::empty());
    assert(t.dec(seq![id], keep) =~= t.table()[id as int]@);
}

// ================================================================ C02: BPE tokenization is lossless
//@unit src/tokenization.rs enum TokenInput
enum TokenInput<'a> {
    Regular(&'a str),
    Special(&'a str),
}
//@end
pub enum TokenizationInfo { Empty }          // stand-in: BPE tokenization carries no extra information
//@unit src/tokenization.rs struct Tokenization
//@rule derive_drop
pub struct Tokenization {
    pub token_ids: Vec<u32>,
    pub info: TokenizationInfo,
}
//@end
impl Tokenization {
//@unit src/tokenization.rs fn new impl=^impl\sTokenization$
    pub fn new(token_ids: Vec<u32>, info: TokenizationInfo) -> (r: Self)
        ensures r.token_ids == token_ids, r.info == info,
    {
        Tokenization { token_ids, info }
    }
//@end
}
pub enum Part { Regular(Seq<char>), Special(Seq<char>) }
spec fn part_of(t: TokenInput) -> Part {
    match t { TokenInput::Regular(s) => Part::Regular(s@), TokenInput::Special(s) => Part::Special(s@) }
}
spec fn parts_of(v: Seq<TokenInput>) -> Seq<Part> { v.map(|k: int, t: TokenInput| part_of(t)) }
/// `\s` of the word pattern, per character; trim_end = the text without its trailing whitespace
pub uninterp spec fn c_ws(c: char) -> bool;
pub open spec fn trim_end(s: Seq<char>) -> Seq<char>
    decreases s.len()
{
    if s.len() > 0 && c_ws(s.last()) { trim_end(s.drop_last()) } else { s }
}
/// Vec<u32>::extend(Vec<u32>)
#[verifier::external_body]
fn vt_extend_vec(v: &mut Vec<u32>, w: Vec<u32>)
    ensures final(v)@ == old(v)@ + w@,
{ v.extend(w) }

/// the ids merge_bytes produces for a text, as a function of the tokenizer and the text
pub uninterp spec fn mb_ids(t: BPETokenizer, s: Seq<char>) -> Seq<u32>;

impl BPETokenizer {
    pub closed spec fn prefix(&self) -> Seq<u32> { self.prefix_token_ids@ }
    pub closed spec fn suffix(&self) -> Seq<u32> { self.suffix_token_ids@ }
    pub open spec fn special_key(&self, spelling: Seq<char>) -> String {
        choose|key: String| key@ == spelling && #[trigger] self.special().fwd().contains_key(key)
    }
    pub open spec fn special_id(&self, spelling: Seq<char>) -> Option<u32> {
        if exists|key: String| key@ == spelling && #[trigger] self.special().fwd().contains_key(key) {
            Some(self.special().fwd()[self.special_key(spelling)])
        } else { None }
    }
    /// assumed here, VERIFIED in c01_byte.rs (same function): the parts of split_input
    pub open spec fn split_ok(&self, s: Seq<char>, ignore: bool, p: Seq<Part>) -> bool {
        &&& forall|k: int| 0 <= k < p.len() ==> (match #[trigger] p[k] { Part::Special(x) => self.special_id(x).is_some(), Part::Regular(_) => true })
        &&& (ignore ==> p == seq![Part::Regular(s)])
    }
    #[verifier::external_body]
    fn split_input<'a>(&self, s: &'a str, ignore_special_tokens: bool) -> (r: Vec<TokenInput<'a>>)
        ensures self.split_ok(s@, ignore_special_tokens, parts_of(r@)),
    { unimplemented!() }
    /// assumed here, VERIFIED in c01_byte.rs
    #[verifier::external_body]
    fn add_prefix_and_suffix(&self, token_ids: Vec<u32>) -> (r: Vec<u32>)
        ensures r@ == self.prefix() + token_ids@ + self.suffix(),
    { unimplemented!() }

    /// ASSUMED CONTRACT of BPETokenizer::merge_bytes -- the function is out of the verifier's reach (BinaryHeap of
    /// 6-tuples, regex match iterator, nested find/map closures; DESIGN 7).  A BOUNDED check of the real function stands
    /// in for it (bounded stand-in of C02): every id is a regular id and the ids spell the text without its trailing
    /// whitespace.
    #[verifier::external_body]
    fn merge_bytes(&self, s: &str) -> (r: Vec<u32>)
        ensures
            r@ == mb_ids(*self, s@),
            forall|k: int| 0 <= k < r.len() ==> (#[trigger] r[k]) < self.table().len(),
            self.dec(r@, false) == chars_utf8(trim_end(s@)),
    { unimplemented!() }

    pub open spec fn ids_of(&self, p: Seq<Part>) -> Seq<u32>
        decreases p.len()
    {
        if p.len() == 0 { Seq::empty() } else {
            self.ids_of(p.drop_last()) + (match p.last() {
                Part::Regular(s) => mb_ids(*self, s),
                Part::Special(s) => seq![self.special_id(s).unwrap()],
            })
        }
    }
    /// every id of a part sequence is a vocabulary id
    pub open spec fn valid_ids(&self, ids: Seq<u32>) -> bool { forall|k: int| 0 <= k < ids.len() ==> (#[trigger] ids[k]) < self.spec_vocab_size() }

//@unit src/tokenization.rs fn tokenize impl=^impl\sTokenize\sfor\sBPETokenizer$
//@rule R4
//@rule R6_extend_call
    #[verifier::loop_isolation(false)]
    fn tokenize(&self, s: &str, ignore_special_tokens: bool) -> (res: VtResult<Tokenization>)
        requires self.wf(), obeys_key_model::<String>(),
        ensures
            // prefix ids, then per part the merged ids of the text / the single special id, then suffix ids
            res.is_ok() ==> exists|p: Seq<Part>| #[trigger] self.split_ok(s@, ignore_special_tokens, p)
                && res.unwrap().token_ids@ == self.prefix() + self.ids_of(p) + self.suffix() && self.valid_ids(self.ids_of(p)),
            // without special-token parsing: never an error, the merged ids of the whole text
            ignore_special_tokens ==> res.is_ok() && res.unwrap().token_ids@ == self.prefix() + mb_ids(*self, s@) + self.suffix(),
    {
        let inputs = self.split_input(s, ignore_special_tokens);
        let mut token_ids = vec![];
        let ghost parts = parts_of(inputs@);
        let ghost mut done: int = 0;
        proof { assert(parts.subrange(0, 0) =~= Seq::<Part>::empty()); }
        for input in it: inputs
            invariant
                obeys_key_model::<String>(), self.wf(),
                parts == parts_of(it.seq()), self.split_ok(s@, ignore_special_tokens, parts),
                done == it.index@, 0 <= done <= parts.len(),
                token_ids@ == self.ids_of(parts.subrange(0, done)), self.valid_ids(token_ids@),
        {
            proof {
                assert(part_of(input) == parts[done]);
                assert(parts.subrange(0, done + 1).drop_last() =~= parts.subrange(0, done));
                assert(parts.subrange(0, done + 1).last() == parts[done]);
            }
            match input {
                TokenInput::Regular(s) => {
                    let ghost t0 = token_ids@;
                    vt_extend_vec(&mut token_ids, self.merge_bytes(s));
                    proof {
                        assert(token_ids@ =~= self.ids_of(parts.subrange(0, done)) + mb_ids(*self, s@));
                        assert forall|k: int| 0 <= k < token_ids.len() implies (#[trigger] token_ids[k]) < self.spec_vocab_size() by {
                            if k >= t0.len() { assert(token_ids[k] == mb_ids(*self, s@)[k - t0.len()]); }
                        }
                    }
                }
                TokenInput::Special(token) => {
                    proof {
                        axiom_borrow_string_str(self.special_vocab.fwd(), token);
                        if ignore_special_tokens { assert(parts[done] == Part::Regular(s@)); }
                    }
                    token_ids.push(
                        self.special_vocab
                            .token_to_id(token)
                            .ok_or_else(|| vt_anyhow())?,
                    );
                    proof {
                        let token_id = token_ids[token_ids.len() - 1];
                        let key = choose|key: String| key@ == token@ && #[trigger] self.special().fwd().contains_key(key) && self.special().fwd()[key] == token_id;
                        let key2 = self.special_key(token@);
                        axiom_string_ext(key, key2);
                        assert(self.special_id(token@) == Some(token_id));
                        assert(token_ids@ =~= self.ids_of(parts.subrange(0, done)) + seq![token_id]);
                        assert(self.special().rev().contains_key(token_id));
                    }
                }
            }
            proof { done = done + 1; }
        }
        proof {
            assert(parts.subrange(0, parts.len() as int) =~= parts);
            if ignore_special_tokens {
                let p = seq![Part::Regular(s@)];
                assert(p.drop_last() =~= Seq::<Part>::empty());
                assert(self.ids_of(p.drop_last()) =~= Seq::<u32>::empty());
                assert(p.last() == Part::Regular(s@));
                assert(self.ids_of(p) =~= mb_ids(*self, s@));
            }
        }
        Ok(Tokenization::new(
            self.add_prefix_and_suffix(token_ids),
            TokenizationInfo::Empty,
        ))
    }
//@end

    // ---- lemmas over dec
    pub proof fn lemma_dec_append(&self, a: Seq<u32>, b: Seq<u32>, keep: bool)
        ensures self.dec(a + b, keep) == self.dec(a, keep) + self.dec(b, keep),
        decreases b.len()
    {
        if b.len() == 0 {
            assert(a + b =~= a);
            assert(self.dec(b, keep) =~= Seq::<u8>::empty());
            assert(self.dec(a, keep) + self.dec(b, keep) =~= self.dec(a, keep));
        } else {
            assert((a + b).drop_last() =~= a + b.drop_last());
            assert((a + b).last() == b.last());
            self.lemma_dec_append(a, b.drop_last(), keep);
            let x = self.dec(a + b, keep);
            assert(x =~= self.dec(a, keep) + self.dec(b, keep));
        }
    }
    /// special ids spell nothing when special tokens are ignored
    pub proof fn lemma_dec_skip(&self, ids: Seq<u32>)
        requires forall|k: int| 0 <= k < ids.len() ==> (#[trigger] ids[k]) >= self.table().len(),
        ensures self.dec(ids, false) == Seq::<u8>::empty(),
        decreases ids.len()
    {
        if ids.len() > 0 {
            assert(ids.last() == ids[ids.len() - 1]);
            assert forall|k: int| 0 <= k < ids.drop_last().len() implies (#[trigger] ids.drop_last()[k]) >= self.table().len() by { assert(ids.drop_last()[k] == ids[k]); }
            self.lemma_dec_skip(ids.drop_last());
            assert(self.dec(ids, false) =~= Seq::<u8>::empty());
        }
    }
    /// ASSUMED (established by new_base_tokenizer, explored by the bounded stand-in of C04): prefix and suffix ids are
    /// special ids
    pub open spec fn fix_wf(&self) -> bool {
        &&& forall|k: int| 0 <= k < self.prefix().len() ==> (#[trigger] self.prefix()[k]) >= self.table().len()
        &&& forall|k: int| 0 <= k < self.suffix().len() ==> (#[trigger] self.suffix()[k]) >= self.table().len()
    }
    /// C02: decoding the ids of tokenize(s, ignore) with special tokens ignored gives the text without its trailing
    /// whitespace -- exactly s when s has none -- as well-formed UTF-8 of a string; every id is a vocabulary id
    pub proof fn theorem_lossless(&self, s: Seq<char>, ids: Seq<u32>)
        requires
            self.wf(), self.fix_wf(),
            ids == self.prefix() + mb_ids(*self, s) + self.suffix(),
            self.dec(mb_ids(*self, s), false) == chars_utf8(trim_end(s)),      // the assumed contract of merge_bytes
        ensures
            self.dec(ids, false) == chars_utf8(trim_end(s)),
            (s.len() == 0 || !c_ws(s.last())) ==> self.dec(ids, false) == chars_utf8(s),
    {
        self.lemma_dec_append(self.prefix() + mb_ids(*self, s), self.suffix(), false);
        self.lemma_dec_append(self.prefix(), mb_ids(*self, s), false);
        self.lemma_dec_skip(self.prefix());
        self.lemma_dec_skip(self.suffix());
        assert(self.dec(ids, false) =~= chars_utf8(trim_end(s)));
    }
}
/// the decoded text is a prefix of the input that differs from it only by trailing whitespace
proof fn lemma_trim_end_prefix(s: Seq<char>)
    ensures
        trim_end(s).len() <= s.len(), trim_end(s) == s.subrange(0, trim_end(s).len() as int),
        forall|k: int| trim_end(s).len() <= k < s.len() ==> c_ws(#[trigger] s[k]),
    decreases s.len()
{
    if s.len() > 0 && c_ws(s.last()) {
        let d = s.drop_last();
        lemma_trim_end_prefix(d);
        let t = trim_end(d);
        assert(trim_end(s) == t);
        assert(t.len() <= d.len());
        assert(d.subrange(0, t.len() as int) =~= s.subrange(0, t.len() as int));
        assert(t =~= s.subrange(0, t.len() as int));
        assert forall|k: int| t.len() <= k < s.len() implies c_ws(#[trigger] s[k]) by {
            if k < d.len() { assert(d[k] == s[k]); assert(c_ws(d[k])); } else { assert(s[k] == s.last()); }
        }
    } else {
        assert(trim_end(s) == s);
        assert(s =~= s.subrange(0, s.len() as int));
    }
}

} // verus!
fn main() {}
