// C04 -- BPE tokenizer id maps against one spec function `vocab_at`
use vstd::prelude::*;
use vstd::string::StringSliceAdditionalSpecFns;
use vstd::std_specs::hash::*;
use std::collections::HashMap;
use std::borrow::Borrow;
use std::hash::Hash;
verus! {
// ---------------------------------------------------------------- trusted prelude
pub struct Regex;               // external type (regex crate), never inspected by the units
pub struct BPETokenizerConfig;  // configuration record, never inspected by the units

pub assume_specification<T: Copy>[ Option::<&T>::copied ](o: Option<&T>) -> (r: Option<T>)
    ensures r == match o { Some(x) => Some(*x), None => None };

//@unit src/tokenization.rs trait ToBytes
pub trait ToBytes {
    fn to_bytes(&self) -> Vec<u8>;
}
//@end

/// UTF-8 bytes of an owned string (the meaning of `String::as_bytes`)
pub open spec fn string_bytes(s: String) -> Seq<u8> { s@.as_bytes_spec() }
pub uninterp spec fn chars_utf8(s: Seq<char>) -> Seq<u8>;
pub trait VtBytesSpec { spec fn as_bytes_spec(self) -> Seq<u8>; }
impl VtBytesSpec for Seq<char> { open spec fn as_bytes_spec(self) -> Seq<u8> { chars_utf8(self) } }

impl ToBytes for String {
    // real body: `self.as_bytes().to_vec()`
    #[verifier::external_body]
    fn to_bytes(&self) -> (r: Vec<u8>)
        ensures r@ == string_bytes(*self)
    {
        self.as_bytes().to_vec()
    }
}

// `&str` bytes: vstd's `spec_bytes` is the UTF-8 encoding of the view; tie it to chars_utf8
#[verifier::external_body]
pub proof fn axiom_str_bytes(s: &str)
    ensures s.spec_bytes() == chars_utf8(s@)
{}

// UTF-8 encoding is injective; a String is determined by its characters
#[verifier::external_body]
pub proof fn axiom_utf8_injective(a: Seq<char>, b: Seq<char>)
    ensures chars_utf8(a) == chars_utf8(b) ==> a == b
{}
#[verifier::external_body]
pub proof fn axiom_string_ext(a: String, b: String)
    ensures a@ == b@ ==> a == b
{}

// lookups through `Borrow`: HashMap<String,_>::get(&str) and HashMap<Vec<u8>,_>::get(&[u8])
#[verifier::external_body]
pub proof fn axiom_borrow_string_str(m: Map<String, u32>, k: &str)
    ensures
        contains_borrowed_key(m, k) <==> exists|key: String| key@ == k@ && #[trigger] m.contains_key(key),
        forall|v: u32| maps_borrowed_key_to_value(m, k, v) <==> exists|key: String| key@ == k@ && #[trigger] m.contains_key(key) && m[key] == v,
{}
#[verifier::external_body]
pub proof fn axiom_borrow_vec_slice(m: Map<Vec<u8>, u32>, k: &[u8])
    ensures
        contains_borrowed_key(m, k) <==> exists|key: Vec<u8>| key@ == k@ && #[trigger] m.contains_key(key),
        forall|v: u32| maps_borrowed_key_to_value(m, k, v) <==> exists|key: Vec<u8>| key@ == k@ && #[trigger] m.contains_key(key) && m[key] == v,
{}

//@unit src/tokenization.rs type MergeOps
pub type MergeOps = HashMap<Vec<u8>, u32>;
//@end

//@unit src/tokenization.rs struct Vocab
pub struct Vocab<Token> {
    vocab: HashMap<Token, u32>,
    reverse_vocab: HashMap<u32, Token>,
}
//@end

//@unit src/tokenization.rs struct BaseTokenizer
pub struct BaseTokenizer<Config = (), State = ()> {
    prefix_token_ids: Vec<u32>,
    suffix_token_ids: Vec<u32>,
    pad_token_id: u32,
    state: State,
    config: Config,
    special_vocab: Vocab<String>,
    special_token_pattern: Option<Regex>,
}
//@end

//@unit src/tokenization.rs type BPETokenizer
pub type BPETokenizer = BaseTokenizer<BPETokenizerConfig, (MergeOps, Vec<Vec<u8>>, Regex)>;
//@end

impl<Token> Vocab<Token> {
    pub closed spec fn fwd(&self) -> Map<Token, u32> { self.vocab@ }
    pub closed spec fn rev(&self) -> Map<u32, Token> { self.reverse_vocab@ }
    /// the two maps are mutually inverse (established by `Vocab::build`, assumed)
    pub open spec fn inverse(&self) -> bool {
        &&& forall|t: Token| #[trigger] self.fwd().contains_key(t) ==> self.rev().contains_key(self.fwd()[t]) && self.rev()[self.fwd()[t]] == t
        &&& forall|id: u32| #[trigger] self.rev().contains_key(id) ==> self.fwd().contains_key(self.rev()[id]) && self.fwd()[self.rev()[id]] == id
    }
}

impl<Token> Vocab<Token>
where
    Token: PartialEq + Eq + Hash + Clone,
{
//@unit src/tokenization.rs fn len impl=^impl<Token>Vocab<Token>where\sToken:PartialEq\+Eq\+Hash\+Clone,$
    fn len(&self) -> (r: usize)
        requires obeys_key_model::<Token>(),
        ensures r == self.fwd().len(),
    {
        self.vocab.len()
    }
//@end

//@unit src/tokenization.rs fn token_to_id impl=^impl<Token>Vocab<Token>where\sToken:PartialEq\+Eq\+Hash\+Clone,$
    fn token_to_id<K>(&self, token: &K) -> (r: Option<u32>)
    where
        K: Hash + Eq + ?Sized,
        Token: Borrow<K>,
        requires obeys_key_model::<Token>(),
        ensures (match r {
            Some(id) => maps_borrowed_key_to_value(self.fwd(), token, id),
            None => !contains_borrowed_key(self.fwd(), token),
        }),
    {
        self.vocab.get(token).copied()
    }
//@end

//@unit src/tokenization.rs fn id_to_token impl=^impl<Token>Vocab<Token>where\sToken:PartialEq\+Eq\+Hash\+Clone,$
    fn id_to_token(&self, id: &u32) -> (r: Option<&Token>)
        ensures (match r {
            Some(t) => self.rev().contains_key(*id) && *t == self.rev()[*id],
            None => !self.rev().contains_key(*id),
        }),
    {
        self.reverse_vocab.get(id)
    }
//@end
}

// ---------------------------------------------------------------- specification (from the property statement)
impl BPETokenizer {
    pub closed spec fn merges(&self) -> Map<Vec<u8>, u32> { self.state.0@ }
    pub closed spec fn table(&self) -> Seq<Vec<u8>> { self.state.1@ }
    pub closed spec fn special(&self) -> Vocab<String> { self.special_vocab }

    pub open spec fn merge_key_at(&self, k: int) -> bool {
        exists|key: Vec<u8>| #[trigger] self.merges().contains_key(key) && key@ == self.table()[k]@ && self.merges()[key] == k - 256
    }
    /// Representation invariant established by `BPETokenizer::new` / `new_base_tokenizer` (assumed, see trusted base):
    /// `table` = the 256 single bytes followed by the merges in id order ("position = 256 + merge id"),
    /// special ids follow the table contiguously and the special maps are mutually inverse.
    pub open spec fn wf(&self) -> bool {
        &&& self.table().len() >= 256
        &&& self.table().len() == 256 + self.merges().len()
        &&& forall|b: int| 0 <= b < 256 ==> (#[trigger] self.table()[b])@ == seq![b as u8]
        &&& forall|k: int| 256 <= k < self.table().len() ==> (#[trigger] self.table()[k])@.len() >= 2
        &&& forall|key: Vec<u8>| #[trigger] self.merges().contains_key(key) ==>
                256 + self.merges()[key] < self.table().len() && self.table()[256 + self.merges()[key]]@ == key@
        &&& forall|k: int| 256 <= k < self.table().len() ==> #[trigger] self.merge_key_at(k)
        &&& forall|i: int, j: int| 0 <= i < j < self.table().len() ==> self.table()[i]@ != self.table()[j]@
        &&& self.special().inverse()
        &&& self.table().len() + self.special().fwd().len() <= u32::MAX
        &&& forall|id: u32| #[trigger] self.special().rev().contains_key(id) <==>
                self.table().len() <= id < self.table().len() + self.special().fwd().len()
        // configuration precondition: no special spelling is also a regular token
        &&& forall|id: u32, k: int| self.special().rev().contains_key(id) && 0 <= k < self.table().len() ==>
                string_bytes(#[trigger] self.special().rev()[id]) != (#[trigger] self.table()[k])@
    }

    /// THE oracle: the token (byte string) of an id, for every u32.
    pub open spec fn vocab_at(&self, id: u32) -> Option<Seq<u8>> {
        if id < 256 { Some(seq![id as u8]) }
        else if id < self.table().len() { Some(self.table()[id as int]@) }
        else if id < self.table().len() + self.special().fwd().len() { Some(string_bytes(self.special().rev()[id])) }
        else { None }
    }
    pub open spec fn spec_vocab_size(&self) -> int { (self.table().len() + self.special().fwd().len()) as int }
}

impl BPETokenizer {
//@unit src/tokenization.rs fn vocab_size impl=^impl\sTokenize\sfor\sBPETokenizer$
    fn vocab_size(&self) -> (r: usize)
        requires self.wf(), obeys_key_model::<String>(),
        ensures r == self.spec_vocab_size(),
            forall|id: u32| self.vocab_at(id).is_some() <==> id < r,
    {
        self.state.1.len() + self.special_vocab.len()
    }
//@end

//@unit src/tokenization.rs fn id_to_token impl=^impl\sTokenize\sfor\sBPETokenizer$
//@rule closure_annot(s ;; &String ;; Vec<u8>)
    fn id_to_token(&self, id: u32) -> (r: Option<Vec<u8>>)
        requires self.wf(),
        ensures (match r { Some(v) => self.vocab_at(id) == Some(v@), None => self.vocab_at(id).is_none() }),
    {
        if id < 256 {
            Some(vec![id as u8])
        } else if id < u32::try_from(self.state.1.len()).ok()? {
            Some(self.state.1[usize::try_from(id).ok()?].clone())
        } else {
            self.special_vocab.id_to_token(&id).map(|s: &String| -> (q: Vec<u8>) ensures q@ == string_bytes(*s) { s.to_bytes() })
        }
    }
//@end

//@unit src/tokenization.rs fn token_to_id impl=^impl\sTokenize\sfor\sBPETokenizer$
    fn token_to_id(&self, token: &str) -> (r: Option<u32>)
        requires self.wf(), obeys_key_model::<String>(), obeys_key_model::<Vec<u8>>(),
        ensures
            // sound: a returned id carries exactly this token
            r.is_some() ==> self.vocab_at(r.unwrap()) == Some(chars_utf8(token@)),
            // complete: every id whose token is this UTF-8 string is found ("maps every UTF-8 token back to its id")
            forall|id: u32| self.vocab_at(id) == Some(chars_utf8(token@)) ==> r == Some(id),
    {
        proof {
            axiom_borrow_string_str(self.special_vocab.fwd(), token);
            axiom_str_bytes(token);
        }
        let ghost want = chars_utf8(token@);
        if let Some(id) = self.special_vocab.token_to_id(token) {
            proof {
                let key = choose|key: String| key@ == token@ && #[trigger] self.special().fwd().contains_key(key) && self.special().fwd()[key] == id;
                assert(self.special().rev().contains_key(id) && self.special().rev()[id] == key);
                assert(self.vocab_at(id) == Some(want));
                assert forall|id2: u32| self.vocab_at(id2) == Some(want) implies id2 == id by {
                    if id2 < self.table().len() {
                        assert(string_bytes(self.special().rev()[id]) != self.table()[id2 as int]@);
                        if id2 < 256 { assert(self.table()[id2 as int]@ == seq![id2 as u8]); }
                    } else {
                        assert(self.special().rev().contains_key(id2));
                        axiom_utf8_injective(self.special().rev()[id2]@, key@);
                        axiom_string_ext(self.special().rev()[id2], key);
                    }
                }
            }
            Some(id)
        } else {
            let bytes = token.as_bytes();
            proof {
                axiom_borrow_vec_slice(self.state.0@, bytes);
                // no special token is spelled like `token`
                assert forall|id2: u32| self.special().rev().contains_key(id2) implies self.vocab_at(id2) != Some(want) by {
                    if self.vocab_at(id2) == Some(want) {
                        axiom_utf8_injective(self.special().rev()[id2]@, token@);
                        assert(self.special().fwd().contains_key(self.special().rev()[id2]));
                    }
                }
            }
            if bytes.len() == 1 {
                proof {
                    assert(want =~= seq![bytes[0]]);
                    assert forall|id2: u32| self.vocab_at(id2) == Some(want) implies id2 == bytes[0] as u32 by {
                        if id2 < 256 {
                            assert(seq![id2 as u8][0] == want[0]);
                        } else if id2 < self.table().len() {
                            assert(self.table()[id2 as int]@.len() >= 2);
                        } else {
                            assert(self.special().rev().contains_key(id2));
                        }
                    }
                }
                Some(bytes[0] as u32)
            } else {
                proof {
                    if !contains_borrowed_key(self.state.0@, bytes) {
                        assert forall|id2: u32| self.vocab_at(id2) != Some(want) by {
                            if id2 < 256 {
                                assert(seq![id2 as u8].len() == 1);
                            } else if id2 < self.table().len() {
                                assert(self.merge_key_at(id2 as int));
                            } else if id2 < self.table().len() + self.special().fwd().len() {
                                assert(self.special().rev().contains_key(id2));
                            }
                        }
                    }
                }
                let merge_id = self.state.0.get(bytes)?;
                proof {
                    let key = choose|key: Vec<u8>| key@ == bytes@ && #[trigger] self.merges().contains_key(key) && self.merges()[key] == *merge_id;
                    let mid = (256 + *merge_id) as u32;
                    assert(self.table()[mid as int]@ == want);
                    assert forall|id2: u32| self.vocab_at(id2) == Some(want) implies id2 == mid by {
                        if id2 < 256 {
                            assert(seq![id2 as u8].len() == 1);
                        } else if id2 < self.table().len() {
                            if id2 < mid { assert(self.table()[id2 as int]@ != self.table()[mid as int]@); }
                            if mid < id2 { assert(self.table()[mid as int]@ != self.table()[id2 as int]@); }
                        } else {
                            assert(self.special().rev().contains_key(id2));
                        }
                    }
                }
                Some(256 + *merge_id)
            }
        }
    }
//@end
}
} // verus!
fn main() {}
