// C15 -- corrupt::edit_word: at most one edit of an enabled kind, never at an excluded position; the returned exclusion
//        set is the old one re-indexed for the length change plus the newly edited positions, all within the new word
use vstd::prelude::*;
use std::collections::HashSet;
verus! {
broadcast use vstd::std_specs::hash::group_hash_axioms;
//@include specs/std_extra.rs
//@include specs/err.rs
//@include specs/chars.rs
//@include specs/ws.rs

// ---------------------------------------------------------------- trusted prelude (this file)
/// a string is the concatenation of its characters (assumed of CharString::new, as in C10)
#[verifier::external_body]
proof fn axiom_flat_chars(s: &str, g: bool)
    ensures flat(chars_of(s, g)) == s@,
{}
/// Rust allocations are at most isize::MAX bytes and every character has at least one byte
#[verifier::external_body]
proof fn axiom_chars_len(s: &str, g: bool)
    ensures chars_of(s, g).len() <= isize::MAX,
{}
impl<'s> CharString<'s> {
    /// assumed contract of CharString::get (index arithmetic verified in c16_windows.rs): the n-th character text
    #[verifier::external_body]
    pub fn get(&self, n: usize) -> (r: Option<&'s str>)
        ensures r.is_some() <==> n < self.view().len(),
            r.is_some() ==> r.unwrap()@ == self.view()[n as int],
    { unimplemented!() }
    /// assumed contract of CharString::sub (verified in c16_windows.rs): panics if start > end, clamps both to the length
    #[verifier::external_body]
    pub fn sub(&self, start: usize, end: usize) -> (r: &'s str)
        requires start <= end,
        ensures r@ == flat(self.view().subrange(clampi(start as int, self.view().len() as int), clampi(end as int, self.view().len() as int))),
    { unimplemented!() }
}
pub open spec fn clampi(x: int, n: int) -> int { if x < n { x } else { n } }

//@unit src/corrupt.rs type EditsAndWeights
pub type EditsAndWeights = (Vec<String>, Vec<f64>);
//@end

/// rand_distr::WeightedIndex::new(weights) succeeds (non-empty, finite, non-negative, positive sum) for `n` edits
pub uninterp spec fn valid_weights(w: Seq<f64>, n: int) -> bool;

/// trait interfaces (declared in src/corrupt.rs; their implementations are the units of c15_providers.rs).  Assumed:
/// `get_edits` / `can_edit` are functions of the word's characters and the position; `sample_edit` returns one of the
/// edits and panics on invalid weights ("invalid weights"), which is therefore part of the domain.
pub trait GetEdits<'s> {
    spec fn edits_at(&self, f: Seq<Seq<char>>, idx: int) -> Option<EditsAndWeights>;
    /// ReplaceEdits needs a character at the position (`expect("cannot replace empty string")`)
    spec fn needs_char(&self) -> bool;
    fn get_edits<'a: 's>(&'s self, cs: &CS<'a>, idx: &usize) -> (r: Option<&'s EditsAndWeights>)
        requires *idx <= cs.view().len(), self.needs_char() ==> *idx < cs.view().len(),
        ensures
            r.is_some() == self.edits_at(cs.view(), *idx as int).is_some(),
            r.is_some() ==> *r.unwrap() == self.edits_at(cs.view(), *idx as int).unwrap();
    fn sample_edit<'a>(&self, edits: &'a [String], weights: &Vec<f64>, rng: &mut impl Rng) -> (r: &'a str)
        requires edits@.len() > 0, valid_weights(weights@, edits@.len() as int),
        ensures exists|k: int| 0 <= k < edits@.len() && r@ == (#[trigger] edits@[k])@;
}
pub trait CanEdit {
    spec fn can(&self, f: Seq<Seq<char>>, idx: int) -> bool;
    fn can_edit(&self, cs: &CS, idx: &usize) -> (r: bool)
        requires *idx < usize::MAX,
        ensures r == self.can(cs.view(), *idx as int);
}
/// rand::Rng::random_range(a..b): panics on an empty range, otherwise any value in it
pub trait Rng {
    fn random_range(&mut self, r: core::ops::Range<usize>) -> (x: usize)
        requires r.start < r.end,
        ensures r.start <= x < r.end;
}

/// `impl Add<&str> for String` (push_str)
#[verifier::external_body]
fn vt_string_add(a: String, b: &str) -> (r: String)
    ensures r@ == a@ + b@,
{ a + b }
/// Option<HashSet<usize>>::unwrap_or_default
#[verifier::external_body]
fn vt_unwrap_or_default(o: Option<HashSet<usize>>) -> (r: HashSet<usize>)
    ensures r@ == opt_set(o),
{ o.unwrap_or_default() }
pub open spec fn opt_set(o: Option<HashSet<usize>>) -> Set<usize> { if o.is_some() { o.unwrap()@ } else { Set::empty() } }
/// `set.into_iter().map(f).collect::<HashSet<usize>>()`: the image of the set (closure postconditions are only usable
/// in the forward direction, hence the two inclusions)
#[verifier::external_body]
fn vt_set_map<F: Fn(usize) -> usize>(s: HashSet<usize>, f: F) -> (r: HashSet<usize>)
    requires forall|x: usize| s@.contains(x) ==> #[trigger] f.requires((x,)),
    ensures
        forall|y: usize| #[trigger] r@.contains(y) ==> exists|x: usize| s@.contains(x) && f.ensures((x,), y),
        forall|x: usize| #[trigger] s@.contains(x) ==> exists|y: usize| r@.contains(y) && f.ensures((x,), y),
{ s.into_iter().map(f).collect() }

// ---------------------------------------------------------------- specification (from the property statement)
/// the table offers the string t at position i
pub open spec fn offers<'s, G: GetEdits<'s>>(tab: &G, f: Seq<Seq<char>>, i: int, t: &str) -> bool {
    tab.edits_at(f, i).is_some() && exists|k: int| 0 <= k < tab.edits_at(f, i).unwrap().0@.len() && t@ == (#[trigger] tab.edits_at(f, i).unwrap().0@[k])@
}
/// every table entry can be sampled (non-empty, valid weights): the domain on which sample_edit does not panic
pub open spec fn table_ok<'s, G: GetEdits<'s>>(tab: &G) -> bool {
    forall|f: Seq<Seq<char>>, i: int| (#[trigger] tab.edits_at(f, i)).is_some() ==>
        tab.edits_at(f, i).unwrap().0@.len() > 0 && valid_weights(tab.edits_at(f, i).unwrap().1@, tab.edits_at(f, i).unwrap().0@.len() as int)
}
pub open spec fn within(ex: Set<usize>, n: int) -> bool { forall|x: usize| ex.contains(x) ==> x < n }

/// insertion of t (l characters) before position i
pub open spec fn inserted(out: Seq<char>, ex1: Set<usize>, f: Seq<Seq<char>>, ex0: Set<usize>, i: int, t: Seq<char>, l: int) -> bool {
    &&& 0 <= i <= f.len() && !ex0.contains(i as usize) && (i > 0 ==> !ex0.contains((i - 1) as usize))
    &&& out == flat(f.subrange(0, i)) + t + flat(f.subrange(i, f.len() as int))
    &&& forall|y: usize| ex1.contains(y) <==> (i <= y < i + l || exists|x: usize| #[trigger] ex0.contains(x) && y == shift_of(x, i, l, 0))
    &&& within(ex1, f.len() + l)
}
/// deletion of character i
pub open spec fn deleted(out: Seq<char>, ex1: Set<usize>, f: Seq<Seq<char>>, ex0: Set<usize>, i: int) -> bool {
    &&& 0 <= i < f.len() && !ex0.contains(i as usize)
    &&& out == flat(f.subrange(0, i)) + flat(f.subrange(i + 1, f.len() as int))
    &&& forall|y: usize| ex1.contains(y) <==> exists|x: usize| #[trigger] ex0.contains(x) && y == (if x > i { x - 1 } else { x as int })
    &&& within(ex1, f.len() - 1)
}
/// replacement of character i by t (l characters)
pub open spec fn replaced(out: Seq<char>, ex1: Set<usize>, f: Seq<Seq<char>>, ex0: Set<usize>, i: int, t: Seq<char>, l: int) -> bool {
    &&& 0 <= i < f.len() && !ex0.contains(i as usize)
    &&& out == flat(f.subrange(0, i)) + t + flat(f.subrange(i + 1, f.len() as int))
    &&& forall|y: usize| ex1.contains(y) <==> (i <= y < i + l || exists|x: usize| #[trigger] ex0.contains(x) && y == shift_of(x, i, l, 1))
    &&& within(ex1, f.len() - 1 + l)
}
/// swap of characters i and i + 1
pub open spec fn swapped(out: Seq<char>, ex1: Set<usize>, f: Seq<Seq<char>>, ex0: Set<usize>, i: int) -> bool {
    &&& 0 <= i && i + 1 < f.len() && !ex0.contains(i as usize) && !ex0.contains((i + 1) as usize)
    &&& out == flat(f.subrange(0, i)) + f[i + 1] + f[i] + flat(f.subrange(i + 2, f.len() as int))
    &&& forall|y: usize| #![trigger ex1.contains(y)] ex1.contains(y) <==> (ex0.contains(y) || y == i || y == i + 1)
    &&& within(ex1, f.len() as int)
}
pub open spec fn ins_ok<'s, G: GetEdits<'s>>(tab: Option<&'s G>, g: bool, out: Seq<char>, ex1: Set<usize>, f: Seq<Seq<char>>, ex0: Set<usize>) -> bool {
    tab.is_some() && exists|i: int, t: &str| #[trigger] offers(tab.unwrap(), f, i, t) && inserted(out, ex1, f, ex0, i, t@, chars_of(t, g).len() as int)
}
pub open spec fn rep_ok<'s, G: GetEdits<'s>>(tab: Option<&'s G>, g: bool, out: Seq<char>, ex1: Set<usize>, f: Seq<Seq<char>>, ex0: Set<usize>) -> bool {
    tab.is_some() && exists|i: int, t: &str| #[trigger] offers(tab.unwrap(), f, i, t) && replaced(out, ex1, f, ex0, i, t@, chars_of(t, g).len() as int)
}
pub open spec fn del_ok<D: CanEdit>(d: Option<&D>, out: Seq<char>, ex1: Set<usize>, f: Seq<Seq<char>>, ex0: Set<usize>) -> bool {
    d.is_some() && exists|i: int| #[trigger] d.unwrap().can(f, i) && deleted(out, ex1, f, ex0, i)
}
pub open spec fn swap_ok<D: CanEdit>(d: Option<&D>, out: Seq<char>, ex1: Set<usize>, f: Seq<Seq<char>>, ex0: Set<usize>) -> bool {
    d.is_some() && exists|i: int| #[trigger] d.unwrap().can(f, i) && swapped(out, ex1, f, ex0, i)
}


/// the shifted-and-extended exclusion set of the insert / replace arms (c = 0: insert, shift from i on; c = 1: replace,
/// shift above i by l - 1)
pub open spec fn shift_of(x: usize, i: int, l: int, c: int) -> int { if x >= i + c { x + l - c } else { x as int } }
proof fn lemma_shift_sets(ex0: Set<usize>, sh: Set<usize>, ex1: Set<usize>, i: int, l: int, n: int, c: int)
    requires
        0 <= i, i + c <= n, 0 <= l, 0 <= c <= 1, n + l <= usize::MAX, within(ex0, n), c == 1 ==> !ex0.contains(i as usize),
        forall|y: usize| #[trigger] sh.contains(y) ==> exists|x: usize| ex0.contains(x) && y == shift_of(x, i, l, c),
        forall|x: usize| #[trigger] ex0.contains(x) ==> exists|y: usize| sh.contains(y) && y == shift_of(x, i, l, c),
        forall|y: usize| #![trigger ex1.contains(y)] ex1.contains(y) <==> (sh.contains(y) || i <= y < i + l),
    ensures
        forall|y: usize| ex1.contains(y) <==> (i <= y < i + l || exists|x: usize| #[trigger] ex0.contains(x) && y == shift_of(x, i, l, c)),
        within(ex1, n - c + l),
{
    assert forall|y: usize| ex1.contains(y) implies (i <= y < i + l || exists|x: usize| #[trigger] ex0.contains(x) && y == shift_of(x, i, l, c)) by {
        if sh.contains(y) {}
    }
    assert forall|y: usize| (i <= y < i + l || exists|x: usize| #[trigger] ex0.contains(x) && y == shift_of(x, i, l, c)) implies ex1.contains(y) by {
        if !(i <= y < i + l) {
            let x = choose|x: usize| #[trigger] ex0.contains(x) && y == shift_of(x, i, l, c);
            assert(ex0.contains(x));
        }
    }
    assert forall|y: usize| ex1.contains(y) implies y < n - c + l by {
        if sh.contains(y) {
            let x = choose|x: usize| ex0.contains(x) && y == shift_of(x, i, l, c);
            assert(x < n);
        }
    }
}
proof fn lemma_flat_split(f: Seq<Seq<char>>, i: int)
    requires 0 <= i <= f.len(),
    ensures flat(f) == flat(f.subrange(0, i)) + flat(f.subrange(i, f.len() as int)),
{
    assert(f =~= f.subrange(0, i) + f.subrange(i, f.len() as int));
    lemma_flat_append(f.subrange(0, i), f.subrange(i, f.len() as int));
}

//@unit src/corrupt.rs fn edit_word
//@rule R26
//@rule R28
//@rule R29
//@rule R30
//@rule R24c
//@rule subst(contains(&(idx + 1))=>contains(&(*idx + 1)))
#[verifier::loop_isolation(false)]
pub fn edit_word<'s>(
    word: &'s str,
    use_graphemes: bool,
    rng: &mut impl Rng,
    insert: Option<&'s impl GetEdits<'s>>,
    delete: Option<&impl CanEdit>,
    replace: Option<&'s impl GetEdits<'s>>,
    swap: Option<&impl CanEdit>,
    exclude_indices: Option<HashSet<usize>>,
) -> (res: (String, HashSet<usize>))
    requires
        // domain: excluded positions lie inside the word (what a chain of edit_word calls maintains, see `within` below);
        // tables can be sampled; the replace table is only asked about existing characters
        within(opt_set(exclude_indices), chars_of(word, use_graphemes).len() as int),
        insert.is_some() ==> table_ok(insert.unwrap()) && !insert.unwrap().needs_char(),
        replace.is_some() ==> table_ok(replace.unwrap()),
    ensures
        ({ let f = chars_of(word, use_graphemes); let ex0 = opt_set(exclude_indices); let out = res.0@; let ex1 = res.1@;
           (out == word@ && ex1 == ex0)
           || ins_ok(insert, use_graphemes, out, ex1, f, ex0)
           || del_ok(delete, out, ex1, f, ex0)
           || rep_ok(replace, use_graphemes, out, ex1, f, ex0)
           || swap_ok(swap, out, ex1, f, ex0) }),
{
    let ghost f = chars_of(word, use_graphemes);
    let ghost ex0 = opt_set(exclude_indices);
    proof { axiom_flat_chars(word, use_graphemes); axiom_chars_len(word, use_graphemes); }
    let mut edit_indices = vec![];
    if insert.is_some() {
        edit_indices.push(0);
    }
    if delete.is_some() {
        edit_indices.push(1);
    }
    if replace.is_some() {
        edit_indices.push(2);
    }
    if swap.is_some() {
        edit_indices.push(3);
    }
    assert(forall|j: int| 0 <= j < edit_indices.len() ==>
        (edit_indices[j] == 0 ==> insert.is_some()) && (edit_indices[j] == 1 ==> delete.is_some())
        && (edit_indices[j] == 2 ==> replace.is_some()) && (edit_indices[j] == 3 ==> swap.is_some()));
    if edit_indices.is_empty() {
        return (word.to_string(), vt_unwrap_or_default(exclude_indices));
    }
    let edit_idx = edit_indices[rng.random_range(0..edit_indices.len())];

    let mut exclude_indices = vt_unwrap_or_default(exclude_indices);
    let cs = CS::new(word, use_graphemes);
    let ghost n = f.len() as int;
    assert(cs.view() == f);

    match edit_idx {
        0 => {
            let insert = insert.unwrap();
            let mut insertions: Vec<_> = Vec::new();
            for idx in 0..=cs.len()
                invariant
                    cs.view() == f, n == f.len(), exclude_indices@ == ex0, !insert.needs_char(),
                    forall|j: int| 0 <= j < insertions.len() ==> ({
                        let p: (usize, &EditsAndWeights) = #[trigger] insertions[j];
                        p.0 <= n && !ex0.contains(p.0) && (p.0 > 0 ==> !ex0.contains((p.0 - 1) as usize))
                        && insert.edits_at(f, p.0 as int) == Some(*p.1) }),
            {
                let vt_o = {
                    let excluded = exclude_indices.contains(&idx)
                        || (idx > 0 && exclude_indices.contains(&(idx - 1)));
                    if excluded {
                        None
                    } else {
                        match insert.get_edits(&cs, &idx) { Some(insertions) => Some((idx, insertions)), None => None }
                    }
                };
                if let Some(vt_x) = vt_o { insertions.push(vt_x); }
            }
            if insertions.is_empty() {
                return (cs.str.to_string(), exclude_indices);
            }
            let (insert_idx, (edits, weights)) = insertions[rng.random_range(0..insertions.len())];
            proof {
                assert(insert.edits_at(f, insert_idx as int) == Some((*edits, *weights)));
            }
            let insertion = insert.sample_edit(edits, weights, rng);
            let insert_len = CS::new(insertion, use_graphemes).len();
            proof { axiom_chars_len(insertion, use_graphemes); }
            // we inserted some string, so the length of the word changed
            // adjust excluded indices to the right of the insertion accordingly
            exclude_indices = vt_set_map(exclude_indices, |idx: usize| -> (q: usize)
                requires idx < n, n <= isize::MAX, insert_len <= isize::MAX,
                ensures q == shift_of(idx, insert_idx as int, insert_len as int, 0)
                {
                    if idx >= insert_idx {
                        idx + insert_len
                    } else {
                        idx
                    }
                });
            let ghost shifted = exclude_indices@;
            // add newly inserted indices to excluded indices
            for l in 0..insert_len
                invariant
                    insert_idx <= n, n <= isize::MAX, insert_len <= isize::MAX,
                    forall|y: usize| #![trigger exclude_indices@.contains(y)] exclude_indices@.contains(y) <==> (shifted.contains(y) || insert_idx <= y < insert_idx + l),
            {
                exclude_indices.insert(insert_idx + l);
            }
            proof {
                lemma_shift_sets(ex0, shifted, exclude_indices@, insert_idx as int, insert_len as int, n, 0);
                assert(offers(insert, f, insert_idx as int, insertion));
                lemma_flat_split(f, insert_idx as int);
                let out = flat(f.subrange(0, insert_idx as int)) + insertion@ + flat(f.subrange(insert_idx as int, n));
                assert(inserted(out, exclude_indices@, f, ex0, insert_idx as int, insertion@, insert_len as int));
            }
            (
                vt_string_add(vt_string_add(cs.sub(0, insert_idx).to_string(), insertion), cs.sub(insert_idx, cs.len())),
                exclude_indices,
            )
        }
        1 => {
            let mut delete_indices: Vec<usize> = Vec::new();
            for vt_k in 0..cs.len()
                invariant
                    cs.view() == f, n == f.len(), exclude_indices@ == ex0, delete.is_some(),
                    forall|j: int| 0 <= j < delete_indices.len() ==> ({
                        let p = #[trigger] delete_indices[j];
                        p < n && !ex0.contains(p) && delete.unwrap().can(f, p as int) }),
            {
                let idx = &vt_k;
                let vt_b = {
                    let excluded = exclude_indices.contains(idx);
                    let can_delete = delete.as_ref().unwrap().can_edit(&cs, idx);
                    !excluded && can_delete
                };
                if vt_b { delete_indices.push(vt_k); }
            }
            if delete_indices.is_empty() {
                return (cs.str.to_string(), exclude_indices);
            }
            let delete_idx = delete_indices[rng.random_range(0..delete_indices.len())];
            // we deleted a character, so the length of the word changed
            // adjust the excluded indices to the right of the delete idx accordingly
            exclude_indices = vt_set_map(exclude_indices, |idx: usize| -> (q: usize)
                requires idx != delete_idx,   // the deleted position was editable, i.e. not excluded
                ensures q == (if idx > delete_idx { idx - 1 } else { idx as int })
                { if idx > delete_idx { idx - 1 } else { idx } });
            proof {
                let out = flat(f.subrange(0, delete_idx as int)) + flat(f.subrange(delete_idx + 1, n));
                assert(deleted(out, exclude_indices@, f, ex0, delete_idx as int));
            }
            (
                vt_string_add(cs.sub(0, delete_idx).to_string(), cs.sub(delete_idx + 1, cs.len())),
                exclude_indices,
            )
        }
        2 => {
            let replace = replace.unwrap();
            let mut replacements: Vec<_> = Vec::new();
            for idx in 0..cs.len()
                invariant
                    cs.view() == f, n == f.len(), exclude_indices@ == ex0,
                    forall|j: int| 0 <= j < replacements.len() ==> ({
                        let p: (usize, &EditsAndWeights) = #[trigger] replacements[j];
                        p.0 < n && !ex0.contains(p.0) && replace.edits_at(f, p.0 as int) == Some(*p.1) }),
            {
                let vt_o = {
                    if exclude_indices.contains(&idx) {
                        None
                    } else {
                        match replace.get_edits(&cs, &idx) { Some(replacements) => Some((idx, replacements)), None => None }
                    }
                };
                if let Some(vt_x) = vt_o { replacements.push(vt_x); }
            }
            if replacements.is_empty() {
                return (cs.str.to_string(), exclude_indices);
            }
            let (replace_idx, (edits, weights)) =
                replacements[rng.random_range(0..replacements.len())];
            proof {
                assert(replace.edits_at(f, replace_idx as int) == Some((*edits, *weights)));
            }
            let replacement = replace.sample_edit(edits, weights, rng);
            let replacement_len = CS::new(replacement, use_graphemes).len();
            proof { axiom_chars_len(replacement, use_graphemes); }
            // shift all indices that come after the replacement by length of the replacement
            // string - 1
            exclude_indices = vt_set_map(exclude_indices, |idx: usize| -> (q: usize)
                requires idx < n, n <= isize::MAX, replacement_len <= isize::MAX,
                ensures q == shift_of(idx, replace_idx as int, replacement_len as int, 1)
                {
                    if idx > replace_idx {
                        idx + replacement_len - 1
                    } else {
                        idx
                    }
                });
            let ghost shifted = exclude_indices@;
            // add replaced indices to the excluded indices
            for l in 0..replacement_len
                invariant
                    replace_idx < n, n <= isize::MAX, replacement_len <= isize::MAX,
                    forall|y: usize| #![trigger exclude_indices@.contains(y)] exclude_indices@.contains(y) <==> (shifted.contains(y) || replace_idx <= y < replace_idx + l),
            {
                exclude_indices.insert(replace_idx + l);
            }
            proof {
                lemma_shift_sets(ex0, shifted, exclude_indices@, replace_idx as int, replacement_len as int, n, 1);
                assert(offers(replace, f, replace_idx as int, replacement));
                let out = flat(f.subrange(0, replace_idx as int)) + replacement@ + flat(f.subrange(replace_idx + 1, n));
                assert(replaced(out, exclude_indices@, f, ex0, replace_idx as int, replacement@, replacement_len as int));
            }
            (
                vt_string_add(vt_string_add(cs.sub(0, replace_idx).to_string(), replacement), cs.sub(replace_idx + 1, cs.len())),
                exclude_indices,
            )
        }
        3 if cs.len() > 1 => {
            let mut swap_indices: Vec<usize> = Vec::new();
            for vt_k in 0..cs.len() - 1
                invariant
                    cs.view() == f, n == f.len(), n > 1, exclude_indices@ == ex0, swap.is_some(),
                    forall|j: int| 0 <= j < swap_indices.len() ==> ({
                        let p = #[trigger] swap_indices[j];
                        p + 1 < n && !ex0.contains(p) && !ex0.contains((p + 1) as usize) && swap.unwrap().can(f, p as int) }),
            {
                let idx = &vt_k;
                let vt_b = {
                    let excluded =
                        exclude_indices.contains(idx) || exclude_indices.contains(&(*idx + 1));
                    let can_swap = swap.as_ref().unwrap().can_edit(&cs, idx);
                    !excluded && can_swap
                };
                if vt_b { swap_indices.push(vt_k); }
            }
            if swap_indices.is_empty() {
                return (cs.str.to_string(), exclude_indices);
            }
            let swap_idx = swap_indices[rng.random_range(0..swap_indices.len())];
            // length of word did not change, just add the two swapped indices to
            // the excluded indices
            exclude_indices.insert(swap_idx);
            exclude_indices.insert(swap_idx + 1);
            proof {
                let out = flat(f.subrange(0, swap_idx as int)) + f[swap_idx + 1] + f[swap_idx as int] + flat(f.subrange(swap_idx + 2, n));
                assert(swapped(out, exclude_indices@, f, ex0, swap_idx as int));
            }
            (
                vt_string_add(vt_string_add(vt_string_add(cs.sub(0, swap_idx).to_string(), cs.get(swap_idx + 1).unwrap()), cs.get(swap_idx).unwrap()), cs.sub(swap_idx + 2, cs.len())),
                exclude_indices,
            )
        }
        _ => (cs.str.to_string(), exclude_indices),
    }
}
//@end
} // verus!
fn main() {}
