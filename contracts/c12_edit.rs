// C12 -- edit distance == reference recurrence `dist`; operations() is a sorted script of that length
use vstd::prelude::*;
verus! {
//@include specs/std_extra.rs
//@include specs/err.rs
//@include specs/chars.rs

pub assume_specification<T: Copy>[ Option::<&T>::copied ](o: Option<&T>) -> (r: Option<T>)
    ensures r == match o { Some(x) => Some(*x), None => None };
pub assume_specification<T>[ <[T]>::reverse ](s: &mut [T])
    ensures final(s)@ == old(s)@.reverse();

//@unit src/edit.rs enum EditOp
#[derive(Copy, Clone, Debug)]
enum EditOp {
    None,
    Keep,
    Insert,
    Delete,
    Replace,
    Swap,
}
//@end

// std Iterator::min_by returns the FIRST of several equal minima (R6)
#[verifier::external_body]
fn vt_min_by_key0(costs: &Vec<(usize, EditOp)>) -> (r: &(usize, EditOp))
    requires costs.len() > 0,
    ensures
        exists|k: int| 0 <= k < costs.len() && costs[k] == *r
            && (forall|m: int| 0 <= m < costs.len() ==> costs[m].0 >= r.0)
            && (forall|m: int| 0 <= m < k ==> costs[m].0 > r.0),
{ unimplemented!() }
// std Iterator::max_by returns the LAST maximum
#[verifier::external_body]
fn vt_max_by_key0(costs: &Vec<(usize, EditOp)>) -> (r: &(usize, EditOp))
    requires costs.len() > 0,
    ensures
        exists|k: int| 0 <= k < costs.len() && costs[k] == *r
            && (forall|m: int| 0 <= m < costs.len() ==> costs[m].0 <= r.0)
            && (forall|m: int| k < m < costs.len() ==> costs[m].0 < r.0),
{ unimplemented!() }

/// domain restriction: the (|a|+1) x (|b|+1) table is addressable
pub open spec fn table_fits(n: nat, m: nat) -> bool { n < usize::MAX && m < usize::MAX && (n + 1) * (m + 1) <= usize::MAX }

// ---- spec: reference recurrence ----

pub open spec fn min2(a: nat, b: nat) -> nat { if a <= b { a } else { b } }

pub open spec fn can_repl(a: Seq<Seq<char>>, b: Seq<Seq<char>>, i: nat, j: nat, sp: bool) -> bool {
    !sp || (!ch_ws(a[i - 1]) && !ch_ws(b[j - 1]))
}
pub open spec fn can_swap(a: Seq<Seq<char>>, b: Seq<Seq<char>>, i: nat, j: nat, sw: bool, sp: bool) -> bool {
    sw && i > 1 && j > 1 && a[i - 1] == b[j - 2] && a[i - 2] == b[j - 1]
    && (!sp || (!ch_ws(a[i - 1]) && !ch_ws(a[i - 2])))
}

pub open spec fn dist(a: Seq<Seq<char>>, b: Seq<Seq<char>>, i: nat, j: nat, sw: bool, sp: bool) -> nat
    decreases i + j
{
    if i == 0 { j } else if j == 0 { i } else {
        let base = min2(dist(a, b, (i - 1) as nat, j, sw, sp) + 1, dist(a, b, i, (j - 1) as nat, sw, sp) + 1);
        let with_diag = if a[i - 1] == b[j - 1] {
            min2(base, dist(a, b, (i - 1) as nat, (j - 1) as nat, sw, sp))
        } else if can_repl(a, b, i, j, sp) {
            min2(base, dist(a, b, (i - 1) as nat, (j - 1) as nat, sw, sp) + 1)
        } else { base };
        if can_swap(a, b, i, j, sw, sp) {
            min2(with_diag, dist(a, b, (i - 2) as nat, (j - 2) as nat, sw, sp) + 1)
        } else { with_diag }
    }
}

proof fn lemma_idx(i: int, j: int, rows: int, cols: int)
    requires 0 <= i < rows, 0 <= j < cols,
    ensures 0 <= i * cols + j < rows * cols,
{
    assert(i * cols + j < rows * cols) by (nonlinear_arith)
        requires 0 <= i < rows, 0 <= j < cols;
    assert(0 <= i * cols + j) by (nonlinear_arith)
        requires 0 <= i, 0 <= j, 0 < cols;
}

proof fn lemma_inj(i1: int, j1: int, i2: int, j2: int, cols: int)
    requires 0 <= j1 < cols, 0 <= j2 < cols, 0 <= i1, 0 <= i2, i1 * cols + j1 == i2 * cols + j2,
    ensures i1 == i2 && j1 == j2,
{
    assert(i1 == i2) by (nonlinear_arith)
        requires 0 <= j1 < cols, 0 <= j2 < cols, 0 <= i1, 0 <= i2, i1 * cols + j1 == i2 * cols + j2;
}

pub open spec fn cell(d: Seq<usize>, cols: int, i: int, j: int) -> int {
    d[i * cols + j] as int
}

proof fn lemma_dist_bound(a: Seq<Seq<char>>, b: Seq<Seq<char>>, i: nat, j: nat, sw: bool, sp: bool)
    ensures dist(a, b, i, j, sw, sp) <= i + j
    decreases i + j
{
    if i == 0 || j == 0 {} else {
        lemma_dist_bound(a, b, (i - 1) as nat, j, sw, sp);
    }
}

proof fn lemma_cell_frame(d0: Seq<usize>, d1: Seq<usize>, cols: int, rows: int, i: int, j: int, v: usize)
    requires 0 <= i < rows, 0 <= j < cols, d0.len() == rows * cols,
        d1 == d0.update(i * cols + j, v),
    ensures
        cell(d1, cols, i, j) == v,
        forall|p: int, q: int| 0 <= p < rows && 0 <= q < cols && !(p == i && q == j) ==>
            #[trigger] cell(d1, cols, p, q) == cell(d0, cols, p, q),
{
    lemma_idx(i, j, rows, cols);
    assert forall|p: int, q: int| 0 <= p < rows && 0 <= q < cols && !(p == i && q == j) implies
            #[trigger] cell(d1, cols, p, q) == cell(d0, cols, p, q) by {
        lemma_idx(p, q, rows, cols);
        if p * cols + q == i * cols + j { lemma_inj(p, q, i, j, cols); }
    }
}

pub open spec fn cands1(a: Seq<Seq<char>>, b: Seq<Seq<char>>, i: nat, j: nat, sw: bool, sp: bool) -> Seq<nat>
    recommends i > 0, j > 0
{
    let base = seq![dist(a, b, (i - 1) as nat, j, sw, sp) + 1, dist(a, b, i, (j - 1) as nat, sw, sp) + 1];
    let diag = dist(a, b, (i - 1) as nat, (j - 1) as nat, sw, sp);
    if a[i - 1] == b[j - 1] { base.push(diag) } else if can_repl(a, b, i, j, sp) { base.push(diag + 1) } else { base }
}
pub open spec fn cands(a: Seq<Seq<char>>, b: Seq<Seq<char>>, i: nat, j: nat, sw: bool, sp: bool) -> Seq<nat>
    recommends i > 0, j > 0
{
    let c1 = cands1(a, b, i, j, sw, sp);
    if can_swap(a, b, i, j, sw, sp) { c1.push(dist(a, b, (i - 2) as nat, (j - 2) as nat, sw, sp) + 1) } else { c1 }
}
spec fn costs_match(costs: Seq<(usize, EditOp)>, gc: Seq<nat>, gk: Seq<EditOp>) -> bool {
    costs.len() == gc.len() && gk.len() == gc.len() && forall|k: int| 0 <= k < gc.len() ==> (#[trigger] costs[k]).0 == gc[k] && costs[k].1 == gk[k]
}
proof fn lemma_costs_push(c0: Seq<(usize, EditOp)>, g0: Seq<nat>, k0: Seq<EditOp>, c1: Seq<(usize, EditOp)>, v: nat, o: EditOp)
    requires costs_match(c0, g0, k0), c1.len() == c0.len() + 1, c1.drop_last() =~= c0, c1.last().0 == v, c1.last().1 == o,
    ensures costs_match(c1, g0.push(v), k0.push(o)),
{
    assert forall|k: int| 0 <= k < g0.push(v).len() implies (#[trigger] c1[k]).0 == g0.push(v)[k] && c1[k].1 == k0.push(o)[k] by {
        if k < c0.len() { assert(c1[k] == c1.drop_last()[k]); }
    }
}
proof fn lemma_min_from_costs(costs: Seq<(usize, EditOp)>, gc: Seq<nat>, gk: Seq<EditOp>, r: (usize, EditOp)) -> (k: int)
    requires costs_match(costs, gc, gk),
        exists|k: int| 0 <= k < costs.len() && costs[k] == r
            && (forall|m: int| 0 <= m < costs.len() ==> costs[m].0 >= r.0),
    ensures is_min_of(r.0 as nat, gc), 0 <= k < gc.len(), gc[k] == r.0 as nat, gk[k] == r.1,
{
    let k = choose|k: int| 0 <= k < costs.len() && costs[k] == r && (forall|m: int| 0 <= m < costs.len() ==> costs[m].0 >= r.0);
    assert(gc[k] == r.0 as nat);
    assert forall|m: int| 0 <= m < gc.len() implies gc[m] >= r.0 as nat by { assert(costs[m].0 >= r.0); }
    k
}

pub open spec fn is_min_of(m: nat, s: Seq<nat>) -> bool {
    (exists|k: int| 0 <= k < s.len() && s[k] == m) && (forall|k: int| 0 <= k < s.len() ==> s[k] >= m)
}

proof fn lemma_min_cands(a: Seq<Seq<char>>, b: Seq<Seq<char>>, i: nat, j: nat, sw: bool, sp: bool, m: nat)
    requires i > 0, j > 0, is_min_of(m, cands(a, b, i, j, sw, sp)),
    ensures m == dist(a, b, i, j, sw, sp),
{
    let c = cands(a, b, i, j, sw, sp);
    let k = choose|k: int| 0 <= k < c.len() && c[k] == m;
    assert(c[0] >= m);
    assert(c[1] >= m);
    if c.len() >= 3 { assert(c[2] >= m); }
    if c.len() >= 4 { assert(c[3] >= m); }
}

// "done" region: rows < i completely, row i up to column j (exclusive); column 0 everywhere
#[verifier::opaque]
pub open spec fn done(d: Seq<usize>, sa: Seq<Seq<char>>, sb: Seq<Seq<char>>, rows: int, cols: int, i: int, j: int, sw: bool, sp: bool) -> bool {
    forall|p: int, q: int| 0 <= p < rows && 0 <= q < cols && (p < i || (p == i && q < j) || q == 0) ==>
        #[trigger] cell(d, cols, p, q) == dist(sa, sb, p as nat, q as nat, sw, sp)
}

proof fn done_read(d: Seq<usize>, sa: Seq<Seq<char>>, sb: Seq<Seq<char>>, rows: int, cols: int, i: int, j: int, sw: bool, sp: bool, p: int, q: int)
    requires done(d, sa, sb, rows, cols, i, j, sw, sp), 0 <= p < rows, 0 <= q < cols, (p < i || (p == i && q < j) || q == 0), d.len() == rows * cols,
    ensures d[p * cols + q] == dist(sa, sb, p as nat, q as nat, sw, sp), 0 <= p * cols + q < d.len(),
        dist(sa, sb, p as nat, q as nat, sw, sp) <= p + q,
{
    reveal(done);
    lemma_idx(p, q, rows, cols);
    assert(cell(d, cols, p, q) == dist(sa, sb, p as nat, q as nat, sw, sp));
    lemma_dist_bound(sa, sb, p as nat, q as nat, sw, sp);
}

proof fn done_write(d0: Seq<usize>, d1: Seq<usize>, sa: Seq<Seq<char>>, sb: Seq<Seq<char>>, rows: int, cols: int, i: int, j: int, sw: bool, sp: bool, v: usize)
    requires done(d0, sa, sb, rows, cols, i, j, sw, sp), 0 <= i < rows, 0 <= j < cols, d0.len() == rows * cols,
        d1 == d0.update(i * cols + j, v), v == dist(sa, sb, i as nat, j as nat, sw, sp),
    ensures done(d1, sa, sb, rows, cols, i, j + 1, sw, sp),
{
    reveal(done);
    lemma_cell_frame(d0, d1, cols, rows, i, j, v);
    assert forall|p: int, q: int| 0 <= p < rows && 0 <= q < cols && (p < i || (p == i && q < j + 1) || q == 0) implies
        #[trigger] cell(d1, cols, p, q) == dist(sa, sb, p as nat, q as nat, sw, sp) by {
        if p == i && q == j {} else { assert(cell(d1, cols, p, q) == cell(d0, cols, p, q)); }
    }
}

proof fn done_next_row(d: Seq<usize>, sa: Seq<Seq<char>>, sb: Seq<Seq<char>>, rows: int, cols: int, i: int, sw: bool, sp: bool)
    requires done(d, sa, sb, rows, cols, i, cols, sw, sp),
    ensures done(d, sa, sb, rows, cols, i + 1, 1, sw, sp),
{
    reveal(done);
}


spec fn pred_ok(op: EditOp, a: Seq<Seq<char>>, b: Seq<Seq<char>>, i: nat, j: nat, sw: bool, sp: bool) -> bool {
    match op {
        EditOp::None => false,
        EditOp::Keep => (i == 0 && j == 0) || (i > 0 && j > 0 && a[i - 1] == b[j - 1]
            && dist(a, b, i, j, sw, sp) == dist(a, b, (i - 1) as nat, (j - 1) as nat, sw, sp)),
        EditOp::Insert => j > 0 && dist(a, b, i, j, sw, sp) == dist(a, b, i, (j - 1) as nat, sw, sp) + 1,
        EditOp::Delete => i > 0 && dist(a, b, i, j, sw, sp) == dist(a, b, (i - 1) as nat, j, sw, sp) + 1,
        EditOp::Replace => i > 0 && j > 0 && dist(a, b, i, j, sw, sp) == dist(a, b, (i - 1) as nat, (j - 1) as nat, sw, sp) + 1,
        EditOp::Swap => i > 1 && j > 1 && a[i - 1] == b[j - 2] && a[i - 2] == b[j - 1]
            && dist(a, b, i, j, sw, sp) == dist(a, b, (i - 2) as nat, (j - 2) as nat, sw, sp) + 1,
    }
}

spec fn ocell(ops: Seq<EditOp>, cols: int, i: int, j: int) -> EditOp { ops[i * cols + j] }

#[verifier::opaque]
spec fn odone(ops: Seq<EditOp>, sa: Seq<Seq<char>>, sb: Seq<Seq<char>>, rows: int, cols: int, i: int, j: int, sw: bool, sp: bool) -> bool {
    forall|p: int, q: int| 0 <= p < rows && 0 <= q < cols && (p < i || (p == i && q < j) || q == 0) ==>
        pred_ok(#[trigger] ocell(ops, cols, p, q), sa, sb, p as nat, q as nat, sw, sp)
}

proof fn lemma_ocell_frame(o0: Seq<EditOp>, o1: Seq<EditOp>, cols: int, rows: int, i: int, j: int, v: EditOp)
    requires 0 <= i < rows, 0 <= j < cols, o0.len() == rows * cols,
        o1 == o0.update(i * cols + j, v),
    ensures
        ocell(o1, cols, i, j) == v,
        forall|p: int, q: int| 0 <= p < rows && 0 <= q < cols && !(p == i && q == j) ==>
            #[trigger] ocell(o1, cols, p, q) == ocell(o0, cols, p, q),
{
    lemma_idx(i, j, rows, cols);
    assert forall|p: int, q: int| 0 <= p < rows && 0 <= q < cols && !(p == i && q == j) implies
            #[trigger] ocell(o1, cols, p, q) == ocell(o0, cols, p, q) by {
        lemma_idx(p, q, rows, cols);
        if p * cols + q == i * cols + j { lemma_inj(p, q, i, j, cols); }
    }
}

proof fn odone_write(o0: Seq<EditOp>, o1: Seq<EditOp>, sa: Seq<Seq<char>>, sb: Seq<Seq<char>>, rows: int, cols: int, i: int, j: int, sw: bool, sp: bool, v: EditOp)
    requires odone(o0, sa, sb, rows, cols, i, j, sw, sp), 0 <= i < rows, 0 <= j < cols, o0.len() == rows * cols,
        o1 == o0.update(i * cols + j, v), pred_ok(v, sa, sb, i as nat, j as nat, sw, sp),
    ensures odone(o1, sa, sb, rows, cols, i, j + 1, sw, sp),
{
    reveal(odone);
    lemma_ocell_frame(o0, o1, cols, rows, i, j, v);
    assert forall|p: int, q: int| 0 <= p < rows && 0 <= q < cols && (p < i || (p == i && q < j + 1) || q == 0) implies
        pred_ok(#[trigger] ocell(o1, cols, p, q), sa, sb, p as nat, q as nat, sw, sp) by {
        if p == i && q == j {} else { assert(ocell(o1, cols, p, q) == ocell(o0, cols, p, q)); }
    }
}

proof fn odone_next_row(o: Seq<EditOp>, sa: Seq<Seq<char>>, sb: Seq<Seq<char>>, rows: int, cols: int, i: int, sw: bool, sp: bool)
    requires odone(o, sa, sb, rows, cols, i, cols, sw, sp),
    ensures odone(o, sa, sb, rows, cols, i + 1, 1, sw, sp),
{
    reveal(odone);
}

// candidate ops in code order
spec fn cand_ops(a: Seq<Seq<char>>, b: Seq<Seq<char>>, i: nat, j: nat, sw: bool, sp: bool) -> Seq<EditOp>
    recommends i > 0, j > 0
{
    let base = seq![EditOp::Delete, EditOp::Insert];
    let c1 = if a[i - 1] == b[j - 1] { base.push(EditOp::Keep) } else if can_repl(a, b, i, j, sp) { base.push(EditOp::Replace) } else { base };
    if can_swap(a, b, i, j, sw, sp) { c1.push(EditOp::Swap) } else { c1 }
}

proof fn lemma_min_pred(a: Seq<Seq<char>>, b: Seq<Seq<char>>, i: nat, j: nat, sw: bool, sp: bool, k: int)
    requires i > 0, j > 0, 0 <= k < cands(a, b, i, j, sw, sp).len(),
        is_min_of(cands(a, b, i, j, sw, sp)[k], cands(a, b, i, j, sw, sp)),
    ensures pred_ok(cand_ops(a, b, i, j, sw, sp)[k], a, b, i, j, sw, sp),
        cand_ops(a, b, i, j, sw, sp).len() == cands(a, b, i, j, sw, sp).len(),
{
    lemma_min_cands(a, b, i, j, sw, sp, cands(a, b, i, j, sw, sp)[k]);
}

//@unit src/edit.rs fn _calculate_edit_matrices
//@rule R15_collect
//@rule R1
//@rule R6_max_by_key0
fn _calculate_edit_matrices(
    a: CharString,
    b: CharString,
    with_swap: bool,
    spaces_insert_delete_only: bool,
) -> (res: (Vec<usize>, Vec<EditOp>))
    requires table_fits(a.view().len(), b.view().len()),
    ensures
        res.0.len() == (a.view().len() + 1) * (b.view().len() + 1),
        forall|i: int, j: int| 0 <= i <= a.view().len() && 0 <= j <= b.view().len() ==>
            #[trigger] cell(res.0@, b.view().len() as int + 1, i, j)
                == dist(a.view(), b.view(), i as nat, j as nat, with_swap, spaces_insert_delete_only),
        res.1.len() == (a.view().len() + 1) * (b.view().len() + 1),
        forall|i: int, j: int| 0 <= i <= a.view().len() && 0 <= j <= b.view().len() ==>
            pred_ok(#[trigger] ocell(res.1@, b.view().len() as int + 1, i, j), a.view(), b.view(), i as nat, j as nat, with_swap, spaces_insert_delete_only),
{
    let rows = a.len() + 1;
    let cols = b.len() + 1;
    let mut d = vec![0; rows * cols];
    let mut ops = vec![EditOp::None; rows * cols];
    let ghost sa = a.view();
    let ghost sb = b.view();
    let ghost sw = with_swap;
    let ghost sp = spaces_insert_delete_only;

    // initialize matrices
    proof { lemma_idx(0, 0, rows as int, cols as int); }
    d[0] = 0;
    ops[0] = EditOp::Keep;
    for i in 1..=a.len()
        invariant
            rows == sa.len() + 1, cols == sb.len() + 1, sa == a.view(), sb == b.view(),
            d.len() == rows * cols, ops.len() == rows * cols,
            forall|k: int| 0 <= k < i ==> #[trigger] cell(d@, cols as int, k, 0) == k,
            ocell(ops@, cols as int, 0, 0) == EditOp::Keep,
            forall|k: int| 1 <= k < i ==> #[trigger] ocell(ops@, cols as int, k, 0) == EditOp::Delete,
    {
        proof { lemma_idx(i as int, 0, rows as int, cols as int); }
        let ghost d0 = d@;
        let ghost o0 = ops@;
        d[i * cols] = i;
        ops[i * cols] = EditOp::Delete;
        proof { lemma_cell_frame(d0, d@, cols as int, rows as int, i as int, 0, i); lemma_ocell_frame(o0, ops@, cols as int, rows as int, i as int, 0, EditOp::Delete); }
    }
    for j in 1..=b.len()
        invariant
            rows == sa.len() + 1, cols == sb.len() + 1, sa == a.view(), sb == b.view(),
            d.len() == rows * cols, ops.len() == rows * cols,
            forall|k: int| 0 <= k < rows ==> #[trigger] cell(d@, cols as int, k, 0) == k,
            forall|k: int| 0 <= k < j ==> #[trigger] cell(d@, cols as int, 0, k) == k,
            ocell(ops@, cols as int, 0, 0) == EditOp::Keep,
            forall|k: int| 1 <= k < rows ==> #[trigger] ocell(ops@, cols as int, k, 0) == EditOp::Delete,
            forall|k: int| 1 <= k < j ==> #[trigger] ocell(ops@, cols as int, 0, k) == EditOp::Insert,
    {
        proof { lemma_idx(0, j as int, rows as int, cols as int); }
        let ghost d0 = d@;
        let ghost o0 = ops@;
        d[j] = j;
        ops[j] = EditOp::Insert;
        proof { lemma_cell_frame(d0, d@, cols as int, rows as int, 0, j as int, j); lemma_ocell_frame(o0, ops@, cols as int, rows as int, 0, j as int, EditOp::Insert); }
    }
    proof {
        reveal(done);
        assert(done(d@, sa, sb, rows as int, cols as int, 1, 1, sw, sp));
        reveal(odone);
        assert forall|p: int, q: int| 0 <= p < rows && 0 <= q < cols && (p < 1 || (p == 1 && q < 1) || q == 0) implies
            pred_ok(#[trigger] ocell(ops@, cols as int, p, q), sa, sb, p as nat, q as nat, sw, sp) by {
            if p == 0 && q == 0 {} else if q == 0 { assert(ocell(ops@, cols as int, p, 0) == EditOp::Delete); } else { assert(ocell(ops@, cols as int, 0, q) == EditOp::Insert); }
        }
        assert(odone(ops@, sa, sb, rows as int, cols as int, 1, 1, sw, sp));
    }
    let a_chars: Vec<Character> = a.vt_chars_vec();
    let b_chars: Vec<Character> = b.vt_chars_vec();
    for a_idx in 0..a_chars.len()
        invariant
            rows == sa.len() + 1, cols == sb.len() + 1, sa == a.view(), sb == b.view(),
            rows * cols <= usize::MAX,
            d.len() == rows * cols, ops.len() == rows * cols,
            sa == chv(a_chars@), sb == chv(b_chars@), sw == with_swap, sp == spaces_insert_delete_only,
            done(d@, sa, sb, rows as int, cols as int, a_idx as int + 1, 1, sw, sp),
            odone(ops@, sa, sb, rows as int, cols as int, a_idx as int + 1, 1, sw, sp),
    { let a_char = &a_chars[a_idx];
        for b_idx in 0..b_chars.len()
            invariant
                rows == sa.len() + 1, cols == sb.len() + 1, sa == a.view(), sb == b.view(),
                rows * cols <= usize::MAX,
                0 <= a_idx < a_chars.len(),
                a_char == &a_chars[a_idx as int],
                d.len() == rows * cols, ops.len() == rows * cols,
                sa == chv(a_chars@), sb == chv(b_chars@), sw == with_swap, sp == spaces_insert_delete_only,
                done(d@, sa, sb, rows as int, cols as int, a_idx as int + 1, b_idx as int + 1, sw, sp),
                odone(ops@, sa, sb, rows as int, cols as int, a_idx as int + 1, b_idx as int + 1, sw, sp),
        { let b_char = &b_chars[b_idx];
            // string indices are offset by -1
            let i = a_idx + 1;
            let j = b_idx + 1;
            proof {
                let (r, c, ii, jj) = (rows as int, cols as int, i as int, j as int);
                done_read(d@, sa, sb, r, c, ii, jj, sw, sp, ii - 1, jj);
                done_read(d@, sa, sb, r, c, ii, jj, sw, sp, ii, jj - 1);
                done_read(d@, sa, sb, r, c, ii, jj, sw, sp, ii - 1, jj - 1);
                lemma_idx(ii, jj, r, c);
                assert(sa[ii - 1] == a_char.str@);
                assert(sb[jj - 1] == b_char.str@);
                assert(r * c >= r + c) by (nonlinear_arith) requires r >= 2, c >= 2;
            }

            let mut costs = vec![
                (d[(i - 1) * cols + j] + 1, EditOp::Delete),
                (d[i * cols + j - 1] + 1, EditOp::Insert),
            ];
            let ghost g_del = dist(sa, sb, (i - 1) as nat, j as nat, sw, sp) + 1;
            let ghost g_ins = dist(sa, sb, i as nat, (j - 1) as nat, sw, sp) + 1;
            let ghost g_diag = dist(sa, sb, (i - 1) as nat, (j - 1) as nat, sw, sp);
            let ghost mut gc: Seq<nat> = seq![g_del, g_ins];
            let ghost mut gk: Seq<EditOp> = seq![EditOp::Delete, EditOp::Insert];
            assert(costs@.len() == 2 && costs@[0].0 == g_del && costs@[1].0 == g_ins && costs@[0].1 == EditOp::Delete && costs@[1].1 == EditOp::Insert);
            if a_char == b_char {
                costs.push((d[(i - 1) * cols + j - 1], EditOp::Keep));
                proof { gc = gc.push(g_diag); gk = gk.push(EditOp::Keep); }
                assert(costs@.len() == 3 && costs@[0].0 == g_del && costs@[1].0 == g_ins && costs@[2].0 == g_diag
                    && costs@[0].1 == EditOp::Delete && costs@[1].1 == EditOp::Insert && costs@[2].1 == EditOp::Keep);
            } else {
                // chars are not equal, only allow replacement if no space is involved
                // or we are allowed to replace spaces
                if !spaces_insert_delete_only
                    || (!a_char.is_whitespace() && !b_char.is_whitespace())
                {
                    costs.push((d[(i - 1) * cols + j - 1] + 1, EditOp::Replace));
                    proof { gc = gc.push(g_diag + 1); gk = gk.push(EditOp::Replace); }
                    assert(costs@.len() == 3 && costs@[0].0 == g_del && costs@[1].0 == g_ins && costs@[2].0 == g_diag + 1
                        && costs@[0].1 == EditOp::Delete && costs@[1].1 == EditOp::Insert && costs@[2].1 == EditOp::Replace);
                }
            }
            assert(costs_match(costs@, gc, gk));
            proof {
                let kbase = seq![EditOp::Delete, EditOp::Insert];
                if sa[i as int - 1] == sb[j as int - 1] { assert(gk =~= kbase.push(EditOp::Keep)); }
                else if can_repl(sa, sb, i as nat, j as nat, sp) { assert(gk =~= kbase.push(EditOp::Replace)); }
                else { assert(gk =~= kbase); }
                if i > 1 { assert(sa[i as int - 2] == a_chars[i as int - 2].str@); }
                if j > 1 { assert(sb[j as int - 2] == b_chars[j as int - 2].str@); }
                let base = seq![g_del, g_ins];
                if sa[i as int - 1] == sb[j as int - 1] {
                    assert(gc =~= base.push(g_diag));
                } else if can_repl(sa, sb, i as nat, j as nat, sp) {
                    assert(gc =~= base.push(g_diag + 1));
                } else {
                    assert(gc =~= base);
                }
                assert(gc =~= cands1(sa, sb, i as nat, j as nat, sw, sp));
            }
            // check if we can swap chars, that is if we are allowed to swap
            // and if the chars to swap match
            if with_swap && i > 1 && j > 1 && a_char == &b_chars[j - 2] && &a_chars[i - 2] == b_char
            {
                // we can swap the chars, but only allow swapping if no space is involved
                // or we are allowed to swap spaces
                if !spaces_insert_delete_only
                    || (!a_char.is_whitespace() && !a_chars[i - 2].is_whitespace())
                {
                    proof {
                        done_read(d@, sa, sb, rows as int, cols as int, i as int, j as int, sw, sp, i as int - 2, j as int - 2);
                        lemma_idx(i as int - 2, j as int, rows as int, cols as int);
                    }
                    let ghost old_costs = costs@;
                    costs.push((d[(i - 2) * cols + j - 2] + 1, EditOp::Swap));
                    proof {
                        let g_sw = dist(sa, sb, (i - 2) as nat, (j - 2) as nat, sw, sp) + 1;
                        lemma_costs_push(old_costs, gc, gk, costs@, g_sw, EditOp::Swap);
                        gc = gc.push(g_sw);
                        gk = gk.push(EditOp::Swap);
                    }
                }
            }
            assert(costs_match(costs@, gc, gk));
            proof {
                let c1 = cands1(sa, sb, i as nat, j as nat, sw, sp);
                if can_swap(sa, sb, i as nat, j as nat, sw, sp) {
                    assert(gc =~= c1.push(dist(sa, sb, (i - 2) as nat, (j - 2) as nat, sw, sp) + 1));
                } else {
                    assert(gc =~= c1);
                }
            }
            assert(gc =~= cands(sa, sb, i as nat, j as nat, sw, sp));
            assert(gk =~= cand_ops(sa, sb, i as nat, j as nat, sw, sp));

            let (min_cost, min_op) = vt_min_by_key0(&costs);
            let ghost d0 = d@;
            let ghost o0 = ops@;
            d[i * cols + j] = *min_cost;
            ops[i * cols + j] = *min_op;
            proof {
                let k = lemma_min_from_costs(costs@, gc, gk, (*min_cost, *min_op));
                lemma_min_cands(sa, sb, i as nat, j as nat, sw, sp, *min_cost as nat);
                lemma_min_pred(sa, sb, i as nat, j as nat, sw, sp, k);
                done_write(d0, d@, sa, sb, rows as int, cols as int, i as int, j as int, sw, sp, *min_cost);
                odone_write(o0, ops@, sa, sb, rows as int, cols as int, i as int, j as int, sw, sp, *min_op);
            }
        }
        proof { done_next_row(d@, sa, sb, rows as int, cols as int, a_idx as int + 1, sw, sp); odone_next_row(ops@, sa, sb, rows as int, cols as int, a_idx as int + 1, sw, sp); }
    }
    proof {
        reveal(done);
        reveal(odone);
    }
    (d, ops)
}
//@end

//@unit src/edit.rs enum EditOperation
//@rule derive_only(Debug ;; Clone ;; PartialEq ;; Eq)
#[derive(Debug, Clone, Eq, PartialEq)]
pub enum EditOperation {
    Insert,
    Delete,
    Replace,
    Swap,
}
//@end


pub open spec fn sorted_script(s: Seq<(EditOperation, usize, usize)>) -> bool {
    forall|x: int, y: int| 0 <= x <= y < s.len() ==> s[x].1 <= s[y].1 && s[x].2 <= s[y].2
}
// reversed order (as collected during the backtrace)
pub open spec fn rsorted_script(s: Seq<(EditOperation, usize, usize)>, i: int, j: int) -> bool {
    &&& forall|x: int, y: int| 0 <= x <= y < s.len() ==> s[x].1 >= s[y].1 && s[x].2 >= s[y].2
    &&& forall|x: int| 0 <= x < s.len() ==> s[x].1 >= i && s[x].2 >= j
}


// ---------------------------------------------------------------- what "applying the script to a yields b" means
/// `e` is a script in BACKTRACE order (last operation first in the vector's tail: e[k-1] is applied first, then e[k-2], ..).
/// Apply its first k entries to the suffix a[ai..] while producing the suffix of b that starts at bj.  Each entry
/// (op, i, j) says: copy a[ai..i] unchanged (that must bring the output position to j), then
///   Insert: emit b[j];  Delete: skip a[i];  Replace: emit b[j] for a[i];  Swap: emit a[i+1], a[i] for a[i], a[i+1].
pub open spec fn apply_bt(a: Seq<Seq<char>>, b: Seq<Seq<char>>, e: Seq<(EditOperation, usize, usize)>, k: int, ai: int, bj: int) -> Option<Seq<Seq<char>>>
    decreases k
{
    if k <= 0 || k > e.len() {
        if 0 <= ai <= a.len() { Some(a.subrange(ai, a.len() as int)) } else { None }
    } else {
        let (op, i, j) = e[k - 1];
        if !(0 <= ai <= i <= a.len() && j == bj + (i - ai)) { None } else {
            let pre = a.subrange(ai, i as int);
            match op {
                EditOperation::Insert => if j < b.len() { match apply_bt(a, b, e, k - 1, i as int, j + 1) { Some(r) => Some(pre + seq![b[j as int]] + r), None => None } } else { None },
                EditOperation::Delete => if i < a.len() { match apply_bt(a, b, e, k - 1, i + 1, j as int) { Some(r) => Some(pre + r), None => None } } else { None },
                EditOperation::Replace => if i < a.len() && j < b.len() { match apply_bt(a, b, e, k - 1, i + 1, j + 1) { Some(r) => Some(pre + seq![b[j as int]] + r), None => None } } else { None },
                EditOperation::Swap => if i + 1 < a.len() { match apply_bt(a, b, e, k - 1, i + 2, j + 2) { Some(r) => Some(pre + seq![a[i + 1], a[i as int]] + r), None => None } } else { None },
            }
        }
    }
}
/// the script `r` (in the order returned by `operations`) applied to `a`
pub open spec fn apply_script(a: Seq<Seq<char>>, b: Seq<Seq<char>>, r: Seq<(EditOperation, usize, usize)>) -> Option<Seq<Seq<char>>> {
    apply_bt(a, b, r.reverse(), r.len() as int, 0, 0)
}
proof fn lemma_apply_prefix(a: Seq<Seq<char>>, b: Seq<Seq<char>>, e0: Seq<(EditOperation, usize, usize)>, e1: Seq<(EditOperation, usize, usize)>, k: int, ai: int, bj: int)
    requires 0 <= k <= e0.len(), k <= e1.len(), forall|x: int| 0 <= x < k ==> e0[x] == e1[x],
    ensures apply_bt(a, b, e0, k, ai, bj) == apply_bt(a, b, e1, k, ai, bj),
    decreases k
{
    if k > 0 {
        let (op, i, j) = e0[k - 1];
        lemma_apply_prefix(a, b, e0, e1, k - 1, i as int, j + 1);
        lemma_apply_prefix(a, b, e0, e1, k - 1, i + 1, j as int);
        lemma_apply_prefix(a, b, e0, e1, k - 1, i + 1, j + 1);
        lemma_apply_prefix(a, b, e0, e1, k - 1, i + 2, j + 2);
    }
}
/// one more unchanged character in front (the Keep step of the backtrace)
proof fn lemma_apply_keep(a: Seq<Seq<char>>, b: Seq<Seq<char>>, e: Seq<(EditOperation, usize, usize)>, k: int, ai: int, bj: int)
    requires 0 <= k <= e.len(), 1 <= ai <= a.len(), apply_bt(a, b, e, k, ai, bj).is_some(),
    ensures apply_bt(a, b, e, k, ai - 1, bj - 1) == Some(seq![a[ai - 1]] + apply_bt(a, b, e, k, ai, bj).unwrap()),
{
    if k == 0 {
        assert(a.subrange(ai - 1, a.len() as int) =~= seq![a[ai - 1]] + a.subrange(ai, a.len() as int));
    } else {
        let (op, i, j) = e[k - 1];
        let pre = a.subrange(ai, i as int);
        let pre2 = a.subrange(ai - 1, i as int);
        assert(pre2 =~= seq![a[ai - 1]] + pre);
        match op {
            EditOperation::Insert => { let r = apply_bt(a, b, e, k - 1, i as int, j + 1).unwrap(); assert(pre2 + seq![b[j as int]] + r =~= seq![a[ai - 1]] + (pre + seq![b[j as int]] + r)); }
            EditOperation::Delete => { let r = apply_bt(a, b, e, k - 1, i + 1, j as int).unwrap(); assert(pre2 + r =~= seq![a[ai - 1]] + (pre + r)); }
            EditOperation::Replace => { let r = apply_bt(a, b, e, k - 1, i + 1, j + 1).unwrap(); assert(pre2 + seq![b[j as int]] + r =~= seq![a[ai - 1]] + (pre + seq![b[j as int]] + r)); }
            EditOperation::Swap => { let r = apply_bt(a, b, e, k - 1, i + 2, j + 2).unwrap(); assert(pre2 + seq![a[i + 1], a[i as int]] + r =~= seq![a[ai - 1]] + (pre + seq![a[i + 1], a[i as int]] + r)); }
        }
    }
}

//@unit src/edit.rs fn operations
pub fn operations(
    a: &str,
    b: &str,
    use_graphemes: bool,
    with_swap: bool,
    spaces_insert_delete_only: bool,
) -> (r: Vec<(EditOperation, usize, usize)>)
    requires table_fits(chars_of(a, use_graphemes).len(), chars_of(b, use_graphemes).len()),
    ensures
        r.len() == dist(chars_of(a, use_graphemes), chars_of(b, use_graphemes), chars_of(a, use_graphemes).len(), chars_of(b, use_graphemes).len(), with_swap, spaces_insert_delete_only),
        sorted_script(r@),
        // applying the script to a yields b
        apply_script(chars_of(a, use_graphemes), chars_of(b, use_graphemes), r@) == Some(chars_of(b, use_graphemes)),
{
    let a_cs = CS::new(a, use_graphemes);
    let b_cs = CS::new(b, use_graphemes);
    let mut i = a_cs.len();
    let mut j = b_cs.len();
    let cols = b_cs.len() + 1;
    let ghost sa = chars_of(a, use_graphemes);
    let ghost sb = chars_of(b, use_graphemes);
    let ghost n = sa.len();
    let ghost m = sb.len();
    let ghost rows = n + 1;
    let ghost sw = with_swap;
    let ghost sp = spaces_insert_delete_only;
    let (_, ops) = _calculate_edit_matrices(a_cs, b_cs, with_swap, spaces_insert_delete_only);
    // backtrace
    // edit operations => 0 -> insert, 1 -> delete, 2 -> replace, 3 -> swap
    let mut edit_ops = vec![];
    proof { assert(sa.subrange(n as int, n as int) =~= sb.subrange(m as int, m as int)); }
    while i > 0 || j > 0
        invariant
            cols == m + 1, rows == n + 1, i <= n, j <= m, ops.len() == rows * cols, n == sa.len(), m == sb.len(),
            forall|p: int, q: int| 0 <= p <= n && 0 <= q <= m ==> pred_ok(#[trigger] ocell(ops@, cols as int, p, q), sa, sb, p as nat, q as nat, sw, sp),
            edit_ops.len() + dist(sa, sb, i as nat, j as nat, sw, sp) == dist(sa, sb, n, m, sw, sp),
            rsorted_script(edit_ops@, i as int, j as int),
            apply_bt(sa, sb, edit_ops@, edit_ops.len() as int, i as int, j as int) == Some(sb.subrange(j as int, m as int)),
        decreases i + j,
    {
        proof { lemma_idx(i as int, j as int, rows as int, cols as int); assert(pred_ok(ocell(ops@, cols as int, i as int, j as int), sa, sb, i as nat, j as nat, sw, sp)); }
        let op = &ops[i * cols + j];
        let ghost e0 = edit_ops@;
        let ghost (i0, j0) = (i as int, j as int);
        let ghost rest = sb.subrange(j0, m as int);
        match op {
            EditOp::None => {
                panic!("should not happen")
            }
            EditOp::Keep => {
                proof {
                    lemma_apply_keep(sa, sb, e0, e0.len() as int, i0, j0);
                    assert(seq![sa[i0 - 1]] + rest =~= sb.subrange(j0 - 1, m as int));
                }
                i -= 1;
                j -= 1;
            }
            EditOp::Insert => {
                j -= 1;
                edit_ops.push((EditOperation::Insert, i, j));
                proof {
                    lemma_apply_prefix(sa, sb, edit_ops@, e0, e0.len() as int, i0, j0);
                    assert(sa.subrange(i0, i0) + seq![sb[j0 - 1]] + rest =~= sb.subrange(j0 - 1, m as int));
                }
            }
            EditOp::Delete => {
                i -= 1;
                edit_ops.push((EditOperation::Delete, i, j));
                proof {
                    lemma_apply_prefix(sa, sb, edit_ops@, e0, e0.len() as int, i0, j0);
                    assert(sa.subrange(i0 - 1, i0 - 1) + rest =~= rest);
                }
            }
            EditOp::Replace => {
                i -= 1;
                j -= 1;
                edit_ops.push((EditOperation::Replace, i, j));
                proof {
                    lemma_apply_prefix(sa, sb, edit_ops@, e0, e0.len() as int, i0, j0);
                    assert(sa.subrange(i0 - 1, i0 - 1) + seq![sb[j0 - 1]] + rest =~= sb.subrange(j0 - 1, m as int));
                }
            }
            EditOp::Swap => {
                i -= 2;
                j -= 2;
                edit_ops.push((EditOperation::Swap, i, j));
                proof {
                    lemma_apply_prefix(sa, sb, edit_ops@, e0, e0.len() as int, i0, j0);
                    assert(sa.subrange(i0 - 2, i0 - 2) + seq![sa[i0 - 1], sa[i0 - 2]] + rest =~= sb.subrange(j0 - 2, m as int));
                }
            }
        }
    }
    let ghost e_final = edit_ops@;
    edit_ops.reverse();
    proof {
        assert(edit_ops@.reverse() =~= e_final);
        assert(sb.subrange(0, m as int) =~= sb);
    }
    edit_ops
}
//@end


// ---------------------------------------------------------------- distance / prefix_distance (R9: floats split off)
// Verus does not interpret IEEE values.  A float produced by `E as f64` carries the ghost integer it was cast from,
// a quotient carries its (numerator, denominator).  The value-level facts ((n as f64)/(m as f64) is in [0,1] for
// n <= m, m >= 1, and is 0 iff n == 0) are the loop-free Kani lemma `norm_quotient` (kani/float_lemmas).
pub uninterp spec fn f_int(x: f64) -> int;
pub uninterp spec fn f_num(x: f64) -> int;
pub uninterp spec fn f_den(x: f64) -> int;
#[verifier::external_body]
fn vt_f64(x: usize) -> (r: f64) ensures f_int(r) == x { x as f64 }
/// the quotient is *defined*: denominator at least 1 (no 0/0, no x/0)
#[verifier::external_body]
fn vt_fdiv(a: f64, b: f64) -> (r: f64) requires f_int(b) >= 1, ensures f_num(r) == f_int(a), f_den(r) == f_int(b) { a / b }
#[verifier::external_body]
fn vt_fdiv_any(a: f64, b: f64) -> (r: f64) ensures f_num(r) == f_int(a), f_den(r) == f_int(b) { a / b }
/// `V[a..b].iter().min().copied().unwrap_or(0)` (std semantics)
#[verifier::external_body]
fn vt_slice_min_or0(v: &Vec<usize>, a: usize, b: usize) -> (r: usize)
    requires a <= b <= v.len(),
    ensures a == b ==> r == 0,
        a < b ==> (exists|j: int| 0 <= j < b - a && #[trigger] row(v@, a as int, j) == r),
        forall|j: int| 0 <= j < b - a ==> r <= #[trigger] row(v@, a as int, j),
{ unimplemented!() }
pub open spec fn row(v: Seq<usize>, lo: int, j: int) -> int { v[lo + j] as int }

pub open spec fn max2(a: nat, b: nat) -> nat { if a >= b { a } else { b } }

proof fn lemma_dist_le_max(a: Seq<Seq<char>>, b: Seq<Seq<char>>, i: nat, j: nat, sw: bool)
    ensures dist(a, b, i, j, sw, false) <= max2(i, j)
    decreases i + j
{
    if i == 0 || j == 0 {} else {
        lemma_dist_le_max(a, b, (i - 1) as nat, (j - 1) as nat, sw);
    }
}
proof fn lemma_dist_self(a: Seq<Seq<char>>, i: nat, sw: bool, sp: bool)
    ensures dist(a, a, i, i, sw, sp) == 0
    decreases i
{
    if i > 0 { lemma_dist_self(a, (i - 1) as nat, sw, sp); }
}

//@unit src/edit.rs fn distance
//@rule R9
pub fn distance(
    a: &str,
    b: &str,
    use_graphemes: bool,
    with_swap: bool,
    spaces_insert_delete_only: bool,
    normalized: bool,
) -> (r: f64)
    requires table_fits(chars_of(a, use_graphemes).len(), chars_of(b, use_graphemes).len()),
    ensures
        // numerator: the reference metric
        f_num(r) == dist(chars_of(a, use_graphemes), chars_of(b, use_graphemes), chars_of(a, use_graphemes).len(), chars_of(b, use_graphemes).len(), with_swap, spaces_insert_delete_only),
        // denominator: 1, or the longer length (the quotient is always defined: vt_fdiv's precondition)
        f_den(r) >= 1,
        !normalized ==> f_den(r) == 1,
        normalized && max2(chars_of(a, use_graphemes).len(), chars_of(b, use_graphemes).len()) >= 1 ==>
            f_den(r) == max2(chars_of(a, use_graphemes).len(), chars_of(b, use_graphemes).len()),
        // 0 for equal strings (including two empty ones)
        chars_of(a, use_graphemes) == chars_of(b, use_graphemes) ==> f_num(r) == 0,
        // normalised value in [0, 1] (numerator <= denominator; with the Kani lemma)
        normalized && !spaces_insert_delete_only ==> f_num(r) <= f_den(r),
        // the statement claims [0, 1] for every flag combination; with spaces_insert_delete_only a whitespace
        // character cannot be substituted, so the distance can exceed the longer length (known finding)
        normalized && spaces_insert_delete_only ==> f_num(r) <= f_den(r),
{
    let a_cs = CS::new(a, use_graphemes);
    let b_cs = CS::new(b, use_graphemes);
    let ghost sa = chars_of(a, use_graphemes);
    let ghost sb = chars_of(b, use_graphemes);
    let norm = if normalized {
        vt_f64(a_cs.len().max(b_cs.len()).max(1))
    } else {
        vt_f64(1)
    };
    let (d, _) = _calculate_edit_matrices(a_cs, b_cs, with_swap, spaces_insert_delete_only);
    proof {
        let (n, m) = (sa.len() as int, sb.len() as int);
        lemma_idx(n, m, n + 1, m + 1);
        assert(n * (m + 1) + m == (n + 1) * (m + 1) - 1) by (nonlinear_arith);
        assert(cell(d@, m + 1, n, m) == dist(sa, sb, n as nat, m as nat, with_swap, spaces_insert_delete_only));
        if !spaces_insert_delete_only { lemma_dist_le_max(sa, sb, n as nat, m as nat, with_swap); }
        if sa == sb { lemma_dist_self(sa, n as nat, with_swap, spaces_insert_delete_only); }
    }
    vt_fdiv(vt_f64(d.last().copied().unwrap_or(0)), norm)
}
//@end

/// minimum over all prefixes of b
pub open spec fn is_prefix_min(v: int, a: Seq<Seq<char>>, b: Seq<Seq<char>>, sw: bool, sp: bool) -> bool {
    &&& exists|j: int| 0 <= j <= b.len() && v == #[trigger] dist(a, b, a.len(), j as nat, sw, sp)
    &&& forall|j: int| 0 <= j <= b.len() ==> v <= #[trigger] dist(a, b, a.len(), j as nat, sw, sp)
}

//@unit src/edit.rs fn prefix_distance
//@rule R6_slice_min
//@rule R9(vt_fdiv_any)
//@rule R16(vt_slice_min_or0 ;; vt_m)
pub fn prefix_distance(
    a: &str,
    b: &str,
    use_graphemes: bool,
    with_swap: bool,
    spaces_insert_delete_only: bool,
    normalized: bool,
) -> (r: f64)
    requires table_fits(chars_of(a, use_graphemes).len(), chars_of(b, use_graphemes).len()),
    ensures
        is_prefix_min(f_num(r), chars_of(a, use_graphemes), chars_of(b, use_graphemes), with_swap, spaces_insert_delete_only),
        f_den(r) == (if normalized { chars_of(a, use_graphemes).len() as int } else { 1 }),
{
    let a_cs = CS::new(a, use_graphemes);
    let b_cs = CS::new(b, use_graphemes);
    let ghost sa = chars_of(a, use_graphemes);
    let ghost sb = chars_of(b, use_graphemes);
    let i = a_cs.len();
    let cols = b_cs.len() + 1;
    let norm = if normalized { vt_f64(a_cs.len()) } else { vt_f64(1) };
    let (d, _) = _calculate_edit_matrices(a_cs, b_cs, with_swap, spaces_insert_delete_only);
    proof {
        let (n, m) = (sa.len() as int, sb.len() as int);
        assert((n + 1) * (m + 1) == n * (m + 1) + (m + 1)) by (nonlinear_arith);
        assert(n * (m + 1) >= 0) by (nonlinear_arith) requires n >= 0, m >= 0;
        assert forall|j: int| 0 <= j <= m implies #[trigger] row(d@, n * (m + 1), j) == dist(sa, sb, n as nat, j as nat, with_swap, spaces_insert_delete_only) by {
            assert(cell(d@, m + 1, n, j) == dist(sa, sb, n as nat, j as nat, with_swap, spaces_insert_delete_only));
        }
    }

    // find minimum in last row
    let vt_m = vt_slice_min_or0(&d, i * cols, (i + 1) * cols);
    proof {
        let (n, m) = (sa.len() as int, sb.len() as int);
        assert(i * cols == n * (m + 1));
        assert((i + 1) * cols - i * cols == m + 1);
        let j0 = choose|j: int| 0 <= j < m + 1 && #[trigger] row(d@, n * (m + 1), j) == vt_m;
        assert(vt_m == dist(sa, sb, sa.len(), j0 as nat, with_swap, spaces_insert_delete_only));
        assert forall|j: int| 0 <= j <= sb.len() implies vt_m <= #[trigger] dist(sa, sb, sa.len(), j as nat, with_swap, spaces_insert_delete_only) by {
            assert(vt_m <= row(d@, n * (m + 1), j));
        }
        assert(is_prefix_min(vt_m as int, sa, sb, with_swap, spaces_insert_delete_only));
    }
    vt_fdiv_any(vt_f64(vt_m), norm)
}
//@end
} // verus!
fn main() {}
