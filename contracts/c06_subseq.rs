// C06 -- utils::find_subsequences_of_max_size_k (used for the sorted+shuffled batch selection)
use vstd::prelude::*;
verus! {
//@include specs/std_extra.rs

pub open spec fn is_size<T, F: Fn(&[T]) -> usize>(f: F, v: Seq<T>, s: int, e: int, r: usize) -> bool {
    exists|sl: &[T]| sl@ == v.subrange(s, e) && #[trigger] f.ensures((sl,), r)
}
pub open spec fn fits<T, F: Fn(&[T]) -> usize>(f: F, v: Seq<T>, s: int, e: int, k: usize) -> bool {
    exists|r: usize| #[trigger] is_size(f, v, s, e, r) && r <= k
}
proof fn lemma_same_size<T, F: Fn(&[T]) -> usize>(f: F, v: Seq<T>, s: int, e: int, r1: usize, r2: usize)
    requires is_size(f, v, s, e, r1), is_size(f, v, s, e, r2),
        forall|sl1: &[T], sl2: &[T], q1: usize, q2: usize| sl1@ == sl2@ && #[trigger] f.ensures((sl1,), q1) && #[trigger] f.ensures((sl2,), q2) ==> q1 == q2,
    ensures r1 == r2,
{
    let a = choose|sl: &[T]| sl@ == v.subrange(s, e) && #[trigger] f.ensures((sl,), r1);
    let b = choose|sl: &[T]| sl@ == v.subrange(s, e) && #[trigger] f.ensures((sl,), r2);
    assert(a@ == b@);
}
//@unit src/utils.rs fn find_subsequences_of_max_size_k
#[verifier::loop_isolation(false)]
pub fn find_subsequences_of_max_size_k<T, SeqSize>(
    values: &[T],
    k: usize,
    size_fn: SeqSize,
) -> (res: Vec<(usize, usize)>)
where
    SeqSize: Fn(&[T]) -> usize,
    requires
        values.len() < usize::MAX,
        forall|sl: &[T]| #[trigger] size_fn.requires((sl,)),
        forall|sl1: &[T], sl2: &[T], r1: usize, r2: usize| sl1@ == sl2@ && #[trigger] size_fn.ensures((sl1,), r1) && #[trigger] size_fn.ensures((sl2,), r2) ==> r1 == r2,
    ensures
        forall|x: int| 0 <= x < res.len() ==> (#[trigger] res[x]).0 < res[x].1 <= values.len() && fits(size_fn, values@, res[x].0 as int, res[x].1 as int, k),
        forall|x: int, y: int| 0 <= x < y < res.len() ==> res[x].0 < res[y].0 && res[x].1 <= res[y].1,
{
    // fast forward to first valid starting element
    let mut start = 0;
    while start < values.len() && size_fn(&values[start..=start]) > k
        invariant start <= values.len(), forall|sl: &[T]| #[trigger] size_fn.requires((sl,)),
        decreases values.len() - start,
    {
        start += 1;
    }
    if start >= values.len() {
        return vec![];
    }
    let mut end = start + 1;
    let mut prev_subsequence_size = size_fn(&values[start..end]);
    let mut subsequences: Vec<(usize, usize)> = vec![];
    let ghost mut ps: int = start as int;
    let ghost mut pe: int = end as int;
    proof { assert(is_size(size_fn, values@, ps, pe, prev_subsequence_size)); }
    while start < values.len() && end <= values.len()
        invariant
            values.len() < usize::MAX,
            forall|sl: &[T]| #[trigger] size_fn.requires((sl,)),
            forall|sl1: &[T], sl2: &[T], r1: usize, r2: usize| sl1@ == sl2@ && #[trigger] size_fn.ensures((sl1,), r1) && #[trigger] size_fn.ensures((sl2,), r2) ==> r1 == r2,
            start < end <= values.len() + 1, start <= values.len(),
            0 <= ps < pe <= values.len(),
            is_size(size_fn, values@, ps, pe, prev_subsequence_size),
            prev_subsequence_size <= k ==> ps == start && (pe == end || (pe == end - 1)),
            forall|x: int| 0 <= x < subsequences.len() ==> (#[trigger] subsequences[x]).0 < subsequences[x].1 <= values.len() && fits(size_fn, values@, subsequences[x].0 as int, subsequences[x].1 as int, k),
            forall|x: int, y: int| 0 <= x < y < subsequences.len() ==> subsequences[x].0 < subsequences[y].0 && subsequences[x].1 <= subsequences[y].1,
            end <= values.len() ==> forall|x: int| 0 <= x < subsequences.len() ==> (#[trigger] subsequences[x]).0 < start && subsequences[x].1 <= end - 1,
        decreases (values.len() - start) + (values.len() + 1 - end),
    {
        let ghost old_start = start;
        let ghost old_end = end;
        let subsequence_size = size_fn(&values[start..end]);
        proof {
            assert(is_size(size_fn, values@, start as int, end as int, subsequence_size));
            if prev_subsequence_size <= k && pe == end { lemma_same_size(size_fn, values@, ps, pe, prev_subsequence_size, subsequence_size); }
        }
        match (prev_subsequence_size <= k, subsequence_size <= k) {
            (_, true) => {
                if end >= values.len() {
                    subsequences.push((start, end));
                }
                end += 1;
            }
            (true, false) => {
                subsequences.push((start, end - 1));
                start += 1;
            }
            (false, false) => {
                start += 1;
                end = end.max(start + 1);
            }
        };
        prev_subsequence_size = subsequence_size;
        proof { ps = old_start as int; pe = old_end as int; }
    }
    subsequences
}
//@end
} // verus!
fn main() {}
