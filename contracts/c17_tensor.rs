// C17 -- tensorisation: padding_mask and pad_ids contain each item's values followed only by padding, true lengths
use vstd::prelude::*;
verus! {
//@include specs/std_extra.rs
// ---------------------------------------------------------------- trusted prelude
/// ndarray::Array2 / Array1: external; ghost view = (rows, cols, row-major data).  `from_shape_vec` succeeds exactly
/// when the vector has rows*cols elements (ndarray's documented contract) and keeps the data in row-major order.
#[verifier::external_body]
#[verifier::reject_recursive_types(T)]
pub struct Array2<T> { _p: core::marker::PhantomData<T> }
#[verifier::external_body]
#[verifier::reject_recursive_types(T)]
pub struct Array1<T> { _p: core::marker::PhantomData<T> }
#[derive(Debug)]
pub struct ShapeError;
pub uninterp spec fn a2_rows<T>(a: Array2<T>) -> int;
pub uninterp spec fn a2_cols<T>(a: Array2<T>) -> int;
pub uninterp spec fn a2_data<T>(a: Array2<T>) -> Seq<T>;
pub uninterp spec fn a1_data<T>(a: Array1<T>) -> Seq<T>;
impl<T> Array2<T> {
    #[verifier::external_body]
    pub fn from_shape_vec(shape: (usize, usize), v: Vec<T>) -> (r: Result<Array2<T>, ShapeError>)
        ensures
            r.is_ok() <==> shape.0 * shape.1 == v.len(),
            r.is_ok() ==> a2_rows(r.unwrap()) == shape.0 && a2_cols(r.unwrap()) == shape.1 && a2_data(r.unwrap()) == v@,
    { unimplemented!() }
}
impl<T> Array1<T> {
    #[verifier::external_body]
    pub fn from_vec(v: Vec<T>) -> (r: Array1<T>)
        ensures a1_data(r) == v@,
    { unimplemented!() }
}
pub mod num { pub trait PrimInt: Copy {} }

//@unit src/tokenization.rs type PaddingMask
pub type PaddingMask = Array2<bool>;
//@end

pub open spec fn max_of(s: Seq<usize>) -> usize
    decreases s.len()
{
    if s.len() == 0 { 0 } else if s.last() >= max_of(s.drop_last()) { s.last() } else { max_of(s.drop_last()) }
}
proof fn lemma_max_ge(s: Seq<usize>, k: int)
    requires 0 <= k < s.len(),
    ensures s[k] <= max_of(s),
    decreases s.len()
{
    if k < s.len() - 1 { lemma_max_ge(s.drop_last(), k); }
}
// R6 idioms (std iterator adapters)
#[verifier::external_body]
fn vt_max_or0(l: &[usize]) -> (r: usize) ensures r == max_of(l@) { unimplemented!() }
#[verifier::external_body]
fn vt_extend_repeat<T: Copy>(v: &mut Vec<T>, x: T, n: usize)
    ensures final(v)@ == old(v)@ + Seq::new(n as nat, |i: int| x),
{ unimplemented!() }
/// `AsRef<[T]>::as_ref`
pub uninterp spec fn as_slice_view<T, A>(a: A) -> Seq<T>;
#[verifier::external_body]
fn vt_as_slice<T, A: AsRef<[T]>>(a: &A) -> (r: &[T]) ensures r@ == as_slice_view::<T, A>(*a) { unimplemented!() }
pub open spec fn lens_of<T, A>(ids: Seq<A>) -> Seq<int> { ids.map(|k: int, a: A| as_slice_view::<T, A>(a).len() as int) }
pub open spec fn max_int(s: Seq<int>) -> int
    decreases s.len()
{
    if s.len() == 0 { 0 } else if s.last() >= max_int(s.drop_last()) { s.last() } else { max_int(s.drop_last()) }
}
proof fn lemma_max_int_ge(s: Seq<int>, k: int)
    requires 0 <= k < s.len(),
    ensures s[k] <= max_int(s),
    decreases s.len()
{
    if k < s.len() - 1 { lemma_max_int_ge(s.drop_last(), k); }
}
#[verifier::external_body]
fn vt_max_len<T, A: AsRef<[T]>>(ids: &[A]) -> (r: usize) ensures r == max_int(lens_of::<T, A>(ids@)) { unimplemented!() }
#[verifier::external_body]
fn vt_extend_cloned<T: Copy>(v: &mut Vec<T>, s: &[T])
    ensures final(v)@ == old(v)@ + s@,
{ unimplemented!() }

proof fn lemma_row_index(b: int, j: int, done: int, cols: int)
    requires 0 <= b < done, 0 <= j < cols,
    ensures 0 <= b * cols + j < done * cols, b * cols + cols <= done * cols,
{
    assert(b * cols + cols <= done * cols) by (nonlinear_arith) requires 0 <= b < done, 0 <= cols;
    assert(0 <= b * cols) by (nonlinear_arith) requires 0 <= b, 0 <= cols;
}

/// row b of a padded matrix: the item's values followed only by padding
pub open spec fn row_ok<T>(data: Seq<T>, cols: int, b: int, item: Seq<T>, pad: T) -> bool {
    item.len() <= cols && forall|j: int| 0 <= j < cols ==> #[trigger] data[b * cols + j] == (if j < item.len() { item[j] } else { pad })
}
pub open spec fn mask_row_ok(data: Seq<bool>, cols: int, b: int, len: int) -> bool {
    len <= cols && forall|j: int| 0 <= j < cols ==> #[trigger] data[b * cols + j] == (j < len)
}

//@unit src/tokenization.rs fn padding_mask
//@rule R6_tensor
#[verifier::loop_isolation(false)]
pub fn padding_mask(lengths: &[usize]) -> (r: PaddingMask)
    requires lengths.len() * max_of(lengths@) <= usize::MAX,     // domain: the mask is addressable
    ensures
        a2_rows(r) == lengths.len(), a2_cols(r) == max_of(lengths@),
        forall|b: int| 0 <= b < lengths.len() ==> #[trigger] mask_row_ok(a2_data(r), max_of(lengths@) as int, b, lengths[b] as int),
{
    let batch_size = lengths.len();
    let max_length = vt_max_or0(lengths);
    let mut mask = Vec::with_capacity(batch_size * max_length);
    let ghost mut done: int = 0;
    for vt_r in it: lengths
        invariant
            done == it.index@, 0 <= done <= lengths.len(),
            max_length == max_of(lengths@), batch_size == lengths.len(),
            mask.len() == done * max_length,
            forall|b: int| 0 <= b < done ==> #[trigger] mask_row_ok(mask@, max_length as int, b, lengths[b] as int),
    {
        let len = *vt_r;
        let ghost m0 = mask@;
        proof {
            assert(len == lengths[done]);
            lemma_max_ge(lengths@, done);
        }
        vt_extend_repeat(&mut mask, true, len);
        vt_extend_repeat(&mut mask, false, max_length - len);
        proof {
            let cols = max_length as int;
            assert(done * cols + cols == (done + 1) * cols) by (nonlinear_arith);
            assert forall|b: int| 0 <= b < done + 1 implies #[trigger] mask_row_ok(mask@, cols, b, lengths[b] as int) by {
                if b < done {
                    assert(mask_row_ok(m0, cols, b, lengths[b] as int));
                    assert forall|j: int| 0 <= j < cols implies #[trigger] mask@[b * cols + j] == (j < lengths[b]) by {
                        lemma_row_index(b, j, done, cols);
                        assert(mask@[b * cols + j] == m0[b * cols + j]);
                    }
                } else {
                    assert forall|j: int| 0 <= j < cols implies #[trigger] mask@[done * cols + j] == (j < len) by {}
                }
            }
            done = done + 1;
        }
    }
    PaddingMask::from_shape_vec((batch_size, max_length), mask).expect("should not fail")
}
//@end

//@unit src/data/mod.rs fn pad_ids
//@rule R6_tensor
//@rule R6_as_ref
#[verifier::loop_isolation(false)]
fn pad_ids<T: num::PrimInt>(ids: &[impl AsRef<[T]>], pad_id: T) -> (r: (Array2<T>, Array1<usize>))
    requires max_int(lens_of::<T, _>(ids@)) * ids.len() <= usize::MAX,
    ensures
        a2_rows(r.0) == ids.len(), a2_cols(r.0) == max_int(lens_of::<T, _>(ids@)),
        // each row: the item's ids followed only by padding; the reported lengths are the true lengths
        forall|b: int| 0 <= b < ids.len() ==> #[trigger] row_ok(a2_data(r.0), a2_cols(r.0), b, as_slice_view::<T, _>(ids[b]), pad_id),
        a1_data(r.1).len() == ids.len(), forall|b: int| 0 <= b < ids.len() ==> #[trigger] a1_data(r.1)[b] == as_slice_view::<T, _>(ids[b]).len(),
{
    let batch_size = ids.len();
    let max_len = vt_max_len(ids);
    let mut padded_ids = Vec::with_capacity(max_len * batch_size);
    let mut lengths = Vec::with_capacity(batch_size);
    let ghost mut done: int = 0;
    let ghost ls = lens_of::<T, _>(ids@);
    for id in it: ids
        invariant
            done == it.index@, 0 <= done <= ids.len(),
            ls == lens_of::<T, _>(ids@), max_len == max_int(ls), batch_size == ids.len(),
            padded_ids.len() == done * max_len,
            lengths.len() == done, forall|b: int| 0 <= b < done ==> #[trigger] lengths[b] == ls[b],
            forall|b: int| 0 <= b < done ==> #[trigger] row_ok(padded_ids@, max_len as int, b, as_slice_view::<T, _>(ids[b]), pad_id),
    {
        let ghost p0 = padded_ids@;
        let ghost item = as_slice_view::<T, _>(ids[done]);
        proof {
            assert(*id == ids[done]);
            assert(ls[done] == item.len());
            lemma_max_int_ge(ls, done);
        }
        vt_extend_cloned(&mut padded_ids, vt_as_slice(id));
        vt_extend_repeat(&mut padded_ids, pad_id, max_len - vt_as_slice(id).len());
        lengths.push(vt_as_slice(id).len());
        proof {
            let cols = max_len as int;
            assert(done * cols + cols == (done + 1) * cols) by (nonlinear_arith);
            assert forall|b: int| 0 <= b < done + 1 implies #[trigger] row_ok(padded_ids@, cols, b, as_slice_view::<T, _>(ids[b]), pad_id) by {
                if b < done {
                    assert(row_ok(p0, cols, b, as_slice_view::<T, _>(ids[b]), pad_id));
                    assert forall|j: int| 0 <= j < cols implies #[trigger] padded_ids@[b * cols + j] == (if j < as_slice_view::<T, _>(ids[b]).len() { as_slice_view::<T, _>(ids[b])[j] } else { pad_id }) by {
                        lemma_row_index(b, j, done, cols);
                        assert(padded_ids@[b * cols + j] == p0[b * cols + j]);
                    }
                } else {
                    assert forall|j: int| 0 <= j < cols implies #[trigger] padded_ids@[done * cols + j] == (if j < item.len() { item[j] } else { pad_id }) by {}
                }
            }
            done = done + 1;
        }
    }
    proof {
        assert(max_len * batch_size == batch_size * max_len) by (nonlinear_arith);
    }
    (
        Array2::from_shape_vec((batch_size, max_len), padded_ids).expect("should not happen"),
        Array1::from_vec(lengths),
    )
}
//@end
} // verus!
fn main() {}
