// C10 -- whitespace::operations is total: for ARBITRARY inputs (no cleanliness assumed) it returns Ok or Err, never panics,
//        never indexes out of bounds, terminates, and an Ok result has one operation per character of `from`
use vstd::prelude::*;
verus! {
//@include specs/std_extra.rs
//@include specs/err.rs
//@include specs/chars.rs

//@unit src/whitespace.rs enum Operation
//@rule derive_only(Debug ;; Clone ;; Copy ;; PartialEq ;; Eq)
#[derive(Debug, Clone, Copy, Eq, PartialEq)]
pub enum Operation {
    Keep,
    Insert,
    Delete,
}
//@end

/// Rust allocations are at most isize::MAX bytes: a Vec of a non-zero-sized type never has more than isize::MAX elements
#[verifier::external_body]
proof fn axiom_vec_len<T>(v: &Vec<T>)
    ensures v.len() <= isize::MAX,
{}

//@unit src/whitespace.rs fn operations as=operations(total)
//@rule R4
//@rule R15_collect
#[verifier::loop_isolation(false)]
pub fn operations(from: &str, to: &str, use_graphemes: bool) -> (res: VtResult<Vec<Operation>>)
    ensures res.is_ok() ==> res.unwrap().len() == chars_of(from, use_graphemes).len(),
{
    let from_cs = CS::new(from, use_graphemes);
    let to_cs = CS::new(to, use_graphemes);
    let from_chars: Vec<Character> = from_cs.vt_chars_vec();
    let to_chars: Vec<Character> = to_cs.vt_chars_vec();
    let mut operations = Vec::with_capacity(from_chars.len().max(to_chars.len()));
    let mut from_ptr = 0;
    let mut to_ptr = 0;
    proof { axiom_vec_len(&to_chars); }
    while from_ptr < from_chars.len()
        invariant
            chars_of(from, use_graphemes) == chv(from_chars@),
            from_ptr <= from_chars.len(), operations.len() == from_ptr,
            to_ptr <= to_chars.len() + 1, to_chars.len() <= isize::MAX,
        decreases from_chars.len() - from_ptr,
    {
        let from_char = &from_chars[from_ptr];
        let to_char = if to_ptr < to_chars.len() {
            Some(&to_chars[to_ptr])
        } else {
            None
        };
        if to_char.is_some() && from_char == to_char.unwrap() {
            operations.push(Operation::Keep);
            to_ptr += 1;
        } else if to_char.is_some() && to_char.unwrap().is_whitespace() {
            operations.push(Operation::Insert);
            to_ptr += 2;
        } else if from_char.is_whitespace() {
            operations.push(Operation::Delete);
        } else {
            return Err(vt_anyhow());
        }
        from_ptr += 1;
    }
    Ok(operations)
}
//@end
} // verus!
fn main() {}
