// C07 -- MultiTrainDataGenerator yields every item of every source exactly once, in per-source order, and terminates
use vstd::prelude::*;
verus! {
//@include specs/std_extra.rs
//@include specs/err.rs
// ---------------------------------------------------------------- trusted prelude
/// one item of a source (`anyhow::Result<TrainData>` in the crate); opaque to the generator
pub struct MaybeTrainData { _p: () }

/// `Box<dyn ExactSizeIterator<Item = MaybeTrainData> + Send>`: external; its ghost view is the sequence of items it
/// will still yield.  Assumed iterator contract: `next` pops the head, returns None iff nothing is left (and stays so).
#[verifier::external_body]
pub struct TrainDataGenerator { _p: () }
pub uninterp spec fn gen_rem(g: TrainDataGenerator) -> Seq<MaybeTrainData>;
impl TrainDataGenerator {
    pub open spec fn rem(&self) -> Seq<MaybeTrainData> { gen_rem(*self) }
    #[verifier::external_body]
    pub fn next(&mut self) -> (r: Option<MaybeTrainData>)
        ensures
            old(self).rem().len() == 0 ==> r.is_none() && final(self).rem() == old(self).rem(),
            old(self).rem().len() > 0 ==> r == Some(old(self).rem()[0]) && final(self).rem() == old(self).rem().skip(1),
    { unimplemented!() }
    /// ExactSizeIterator::len: the number of items still to come
    #[verifier::external_body]
    pub fn len(&self) -> (r: usize)
        ensures r == self.rem().len(),
    { unimplemented!() }
}

/// rand_chacha::ChaCha8Rng, rand::distr::weighted::WeightedIndex: external; a sample is SOME index of the weight vector
#[verifier::external_body]
pub struct ChaCha8Rng { _p: () }
pub uninterp spec fn rng_seed_of(r: ChaCha8Rng) -> Option<u64>;
#[derive(Debug)]
pub struct WeightError;
pub struct WeightedIndex { pub n: usize }
impl WeightedIndex {
    #[verifier::external_body]
    pub fn new(w: Vec<usize>) -> (r: Result<WeightedIndex, WeightError>)
        ensures (w.len() > 0 && forall|k: int| 0 <= k < w.len() ==> w[k] > 0) ==> r.is_ok() && r.unwrap().n == w.len(),
    { unimplemented!() }
}
impl ChaCha8Rng {
    /// a generator is either seeded (its stream is a function of the seed) or drawn from OS entropy (not reproducible)
    #[verifier::external_body]
    pub fn seed_from_u64(seed: u64) -> (r: ChaCha8Rng) ensures rng_seed_of(r) == Some(seed) { unimplemented!() }
    #[verifier::external_body]
    pub fn from_os_rng() -> (r: ChaCha8Rng) ensures rng_seed_of(r).is_none() { unimplemented!() }
    #[verifier::external_body]
    pub fn sample(&mut self, d: WeightedIndex) -> (r: usize)
        ensures r < d.n,
    { unimplemented!() }
}

// R6 idioms of the Weighted arm / all_finished (std iterator chains Verus cannot take)
#[verifier::external_body]
fn vt_false_indices(f: &Vec<bool>) -> (r: Vec<usize>)
    ensures
        forall|k: int| 0 <= k < r.len() ==> (#[trigger] r[k]) < f.len() && !f[r[k] as int],
        forall|i: int| 0 <= i < f.len() && !f[i] ==> exists|k: int| 0 <= k < r.len() && #[trigger] r[k] == i,
{ unimplemented!() }
#[verifier::external_body]
fn vt_gather(w: &Vec<usize>, idx: &Vec<usize>) -> (r: Vec<usize>)
    requires forall|k: int| 0 <= k < idx.len() ==> (#[trigger] idx[k]) < w.len(),
    ensures r.len() == idx.len(), forall|k: int| 0 <= k < idx.len() ==> #[trigger] r[k] == w[idx[k] as int],
{ unimplemented!() }
/// `v.iter().any(f)`: closure postconditions are usable in the forward direction only, hence both implications
#[verifier::external_body]
fn vt_any<F: Fn(&usize) -> bool>(v: &Vec<usize>, f: F) -> (r: bool)
    requires forall|x: &usize| #[trigger] f.requires((x,)),
    ensures
        r ==> exists|k: int| 0 <= k < v.len() && f.ensures((&v[k],), true),
        !r ==> forall|k: int| 0 <= k < v.len() ==> f.ensures((&#[trigger] v[k],), false),
{ unimplemented!() }
/// `v.iter().sum()`: some usize (total_len is informational; overflow of the sum is not modelled)
#[verifier::external_body]
fn vt_sum(v: &Vec<usize>) -> (r: usize) { unimplemented!() }
#[verifier::external_body]
fn vt_all_true(f: &Vec<bool>) -> (r: bool)
    ensures r == !(exists|k: int| 0 <= k < f@.len() && !#[trigger] f@[k]),
{ unimplemented!() }

//@unit src/data/loading.rs enum GenerationStrategy
#[derive(Clone, Copy, Debug, PartialEq)]
pub enum GenerationStrategy {
    Sequential,
    Interleaved,
    Weighted,
}
//@end

//@unit src/data/loading.rs struct MultiTrainDataGenerator
pub struct MultiTrainDataGenerator {
    generators: Vec<TrainDataGenerator>,
    lengths: Vec<usize>,
    total_len: usize,
    strategy: GenerationStrategy,
    idx: usize,
    rng: ChaCha8Rng,
    finished: Vec<bool>,
}
//@end

// ---------------------------------------------------------------- specification
pub open spec fn cyc(u: int, idx: int, n: int) -> int { if u >= idx { u - idx } else { u - idx + n } }

pub open spec fn count_unfinished(f: Seq<bool>) -> nat
    decreases f.len()
{
    if f.len() == 0 { 0 } else { count_unfinished(f.drop_last()) + if f.last() { 0nat } else { 1nat } }
}
proof fn lemma_count_update(f: Seq<bool>, k: int)
    requires 0 <= k < f.len(), !f[k],
    ensures count_unfinished(f.update(k, true)) + 1 == count_unfinished(f),
    decreases f.len()
{
    let g = f.update(k, true);
    if k == f.len() - 1 {
        assert(g.drop_last() =~= f.drop_last());
    } else {
        assert(g.drop_last() =~= f.drop_last().update(k, true));
        lemma_count_update(f.drop_last(), k);
    }
}

impl MultiTrainDataGenerator {
    pub closed spec fn n(&self) -> int { self.generators.len() as int }
    pub closed spec fn rems(&self) -> Seq<Seq<MaybeTrainData>> { self.generators@.map(|k: int, g: TrainDataGenerator| g.rem()) }
    pub closed spec fn fin(&self) -> Seq<bool> { self.finished@ }
    pub closed spec fn cur(&self) -> int { self.idx as int }
    pub closed spec fn strat(&self) -> GenerationStrategy { self.strategy }
    pub closed spec fn lens(&self) -> Seq<usize> { self.lengths@ }
    pub closed spec fn seeded_with(&self) -> Option<u64> { rng_seed_of(self.rng) }
    pub open spec fn some_unfinished(&self) -> bool { exists|u: int| 0 <= u < self.fin().len() && !self.fin()[u] }

    /// representation invariant (established by `MultiTrainDataGenerator::new`, assumed; at least one source)
    pub open spec fn wf(&self) -> bool {
        &&& self.n() > 0
        &&& self.fin().len() == self.n() && self.lens().len() == self.n()
        &&& 0 <= self.cur() < self.n()
        // a source is marked finished only after it returned None
        &&& forall|k: int| 0 <= k < self.n() && self.fin()[k] ==> (#[trigger] self.rems()[k]).len() == 0
        // the current source is unfinished unless everything is finished
        &&& (self.fin()[self.cur()] ==> !self.some_unfinished())
        // sequential: sources are finished strictly in order
        &&& (self.strat() == GenerationStrategy::Sequential ==>
                forall|k: int| 0 <= k < self.n() ==> (#[trigger] self.fin()[k] ==> k <= self.cur()) && (k < self.cur() ==> self.fin()[k]))
        // weighted: every source has a positive length (checked by `new`)
        &&& (self.strat() == GenerationStrategy::Weighted ==> forall|k: int| 0 <= k < self.n() ==> #[trigger] self.lens()[k] > 0)
    }
    /// wf without the clause about the current source (holds in the middle of `next`)
    pub open spec fn wf_mid(&self) -> bool {
        &&& self.n() > 0
        &&& self.fin().len() == self.n() && self.lens().len() == self.n()
        &&& 0 <= self.cur() < self.n()
        &&& forall|k: int| 0 <= k < self.n() && self.fin()[k] ==> (#[trigger] self.rems()[k]).len() == 0
        &&& (self.strat() == GenerationStrategy::Sequential ==>
                forall|k: int| 0 <= k < self.n() ==> (#[trigger] self.fin()[k] ==> k <= self.cur()) && (k < self.cur() ==> self.fin()[k]))
        &&& (self.strat() == GenerationStrategy::Weighted ==> forall|k: int| 0 <= k < self.n() ==> #[trigger] self.lens()[k] > 0)
    }
}

impl vstd::std_specs::cmp::PartialEqSpecImpl for GenerationStrategy {
    open spec fn obeys_eq_spec() -> bool { true }
    open spec fn eq_spec(&self, other: &GenerationStrategy) -> bool { *self == *other }
}

impl MultiTrainDataGenerator {
//@unit src/data/loading.rs fn new impl=^impl\sMultiTrainDataGenerator$
//@rule R4
//@rule R21
//@rule R6_any
//@rule R6_sum
    #[verifier::loop_isolation(false)]
    pub fn new(
        generators: Vec<TrainDataGenerator>,
        strategy: GenerationStrategy,
        seed: Option<u64>,
    ) -> (res: VtResult<Self>)
        ensures
            // rejected exactly for the weighted strategy with an empty source
            res.is_err() <==> (strategy == GenerationStrategy::Weighted && exists|k: int| 0 <= k < generators.len() && (#[trigger] generators[k]).rem().len() == 0),
            // otherwise: the sources as given, nothing consumed, and (with at least one source) the invariant of `next`
            res.is_ok() ==> res.unwrap().rems() == generators@.map(|k: int, g: TrainDataGenerator| g.rem()) && res.unwrap().strat() == strategy
                // reproducible from the seed: with a seed, the generator's random stream is the stream of exactly that seed
                && res.unwrap().seeded_with() == seed
                && (generators.len() > 0 ==> res.unwrap().wf()),
    {
        let mut lengths: Vec<usize> = Vec::new();
        for g in it: generators.iter()
            invariant
                lengths.len() == it.index@, it.index@ <= generators.len(), it.seq().len() == generators.len(),
                forall|k: int| 0 <= k < generators.len() ==> *#[trigger] it.seq()[k] == generators[k],
                forall|k: int| 0 <= k < lengths.len() ==> #[trigger] lengths[k] == generators[k].rem().len(),
        {
            proof { assert(*g == generators[it.index@ as int]); }
            let vt_e = { g.len() };
            lengths.push(vt_e);
        }
        if strategy == GenerationStrategy::Weighted && vt_any(&lengths, |l: &usize| -> (b: bool) ensures b == (*l == 0) { *l == 0 }) {
            return Err(vt_anyhow());
        }
        proof {
            if strategy == GenerationStrategy::Weighted {
                assert forall|k: int| 0 <= k < generators.len() implies (#[trigger] generators[k]).rem().len() != 0 by {
                    assert(lengths[k] == generators[k].rem().len());
                }
            }
        }
        let finished = vec![false; generators.len()];
        Ok(MultiTrainDataGenerator {
            generators,
            total_len: vt_sum(&lengths),
            lengths,
            strategy,
            idx: 0,
            rng: if let Some(seed) = seed {
                ChaCha8Rng::seed_from_u64(seed)
            } else {
                ChaCha8Rng::from_os_rng()
            },
            finished,
        })
    }
//@end

//@unit src/data/loading.rs fn all_finished impl=^impl\sMultiTrainDataGenerator$
//@rule R6_all_deref
    fn all_finished(&self) -> (r: bool)
        ensures r == !self.some_unfinished(),
    {
        proof { assert(self.fin() == self.finished@); }
        vt_all_true(&self.finished)
    }
//@end

//@unit src/data/loading.rs fn next_idx impl=^impl\sMultiTrainDataGenerator$
//@rule R6_weighted_arm
    #[verifier::loop_isolation(false)]
    fn next_idx(&mut self)
        requires old(self).wf_mid(), old(self).some_unfinished(),
        ensures
            final(self).wf(),
            // frame: only the current index (and the random state) changes
            final(self).rems() == old(self).rems(), final(self).fin() == old(self).fin(),
            final(self).lens() == old(self).lens(), final(self).strat() == old(self).strat(),
            !final(self).fin()[final(self).cur()],
            // sequential: stay on the current source until it is finished, then the next one
            old(self).strat() == GenerationStrategy::Sequential ==>
                final(self).cur() == (if old(self).fin()[old(self).cur()] { old(self).cur() + 1 } else { old(self).cur() }),
            // interleaved: the first unfinished source cyclically AFTER the current one (round robin)
            old(self).strat() == GenerationStrategy::Interleaved ==>
                forall|k: int| 0 <= k < old(self).n() && 0 < cyc(k, old(self).cur(), old(self).n()) < cyc(final(self).cur(), old(self).cur(), old(self).n())
                    ==> #[trigger] old(self).fin()[k],
            old(self).strat() == GenerationStrategy::Interleaved && final(self).cur() == old(self).cur() ==>
                forall|k: int| 0 <= k < old(self).n() && k != old(self).cur() ==> #[trigger] old(self).fin()[k],
    {
        assert!(!self.all_finished());
        let ghost n = self.finished.len() as int;
        let ghost u = choose|u: int| 0 <= u < self.fin().len() && !self.fin()[u];
        match self.strategy {
            GenerationStrategy::Sequential => {
                if self.finished[self.idx] {
                    proof {
                        // not everything is finished and everything below idx is: idx + 1 exists and is unfinished
                        assert(u < self.cur() ==> self.fin()[u]);
                        assert(self.cur() + 1 <= u < n);
                        vstd::arithmetic::div_mod::lemma_small_mod((self.idx + 1) as nat, n as nat);
                    }
                    self.idx = (self.idx + 1) % self.finished.len();
                    proof { assert(self.rems() == old(self).rems()); }
                }
            }
            GenerationStrategy::Interleaved => {
                proof {
                    if self.idx + 1 < n { vstd::arithmetic::div_mod::lemma_small_mod((self.idx + 1) as nat, n as nat); }
                    else { vstd::arithmetic::div_mod::lemma_mod_self_0(n); }
                }
                let mut idx = (self.idx + 1) % self.finished.len();
                while self.finished[idx]
                    invariant
                        self.wf_mid(), 0 <= idx < n, n == self.finished.len(), 0 <= u < n, !self.fin()[u],
                        self.rems() == old(self).rems(), self.fin() == old(self).fin(), self.cur() == old(self).cur(),
                        self.lens() == old(self).lens(), self.strat() == old(self).strat(),
                        idx != self.cur() ==> 0 < cyc(idx as int, self.cur(), n),
                        forall|k: int| 0 <= k < n && 0 < cyc(k, self.cur(), n) && (idx == self.cur() || cyc(k, self.cur(), n) < cyc(idx as int, self.cur(), n))
                            ==> #[trigger] self.fin()[k],
                    decreases cyc(u, idx as int, n),
                {
                    proof {
                        if idx + 1 < n { vstd::arithmetic::div_mod::lemma_small_mod((idx + 1) as nat, n as nat); }
                        else { vstd::arithmetic::div_mod::lemma_mod_self_0(n); }
                    }
                    idx = (idx + 1) % self.finished.len()
                }
                self.idx = idx;
                proof { assert(self.rems() == old(self).rems()); }
            }
            GenerationStrategy::Weighted => {
                let non_finished_indices: Vec<usize> = vt_false_indices(&self.finished);
                proof {
                    let k = choose|k: int| 0 <= k < non_finished_indices.len() && #[trigger] non_finished_indices[k] == u;
                    assert(non_finished_indices.len() > 0);
                }
                let dist = WeightedIndex::new(
                    vt_gather(&self.lengths, &non_finished_indices),
                )
                .expect("could not create line distribution");
                self.idx = non_finished_indices[self.rng.sample(dist)];
                proof { assert(self.rems() == old(self).rems()); }
            }
        };
    }
//@end

//@unit src/data/loading.rs fn next impl=^impl\sIterator\sfor\sMultiTrainDataGenerator$
//@rule R8
//@rule subst(Self::Item=>(MaybeTrainData, usize))
    fn next(&mut self) -> (r: Option<(MaybeTrainData, usize)>)
        requires old(self).wf(),
        ensures
            final(self).wf(),
            final(self).rems().len() == old(self).rems().len(),
            (match r {
                // exactly the head of one source is consumed and returned, tagged with that source; nothing else moves
                Some((x, k)) => 0 <= k < old(self).n()
                    && old(self).rems()[k as int].len() > 0
                    && x == old(self).rems()[k as int][0]
                    && final(self).rems()[k as int] == old(self).rems()[k as int].skip(1)
                    && (forall|q: int| 0 <= q < old(self).n() && q != k ==> #[trigger] final(self).rems()[q] == old(self).rems()[q]),
                // None only when every source is exhausted; nothing was consumed
                None => final(self).rems() == old(self).rems()
                    && (forall|q: int| 0 <= q < old(self).n() ==> (#[trigger] old(self).rems()[q]).len() == 0),
            }),
    {
        let data;
        loop
            invariant_except_break
                self.wf(),
                self.rems() == old(self).rems(),
            invariant
                self.wf_mid(),
                self.lens() == old(self).lens(), self.strat() == old(self).strat(), self.n() == old(self).n(),
            ensures
                old(self).rems()[self.cur()].len() > 0,
                data == old(self).rems()[self.cur()][0],
                self.rems() == old(self).rems().update(self.cur(), old(self).rems()[self.cur()].skip(1)),
                !self.fin()[self.cur()],
            decreases count_unfinished(self.fin()),
        {
            let ghost g0 = self.generators@;
            let ghost r0 = self.rems();
            let next = self.generators[self.idx].next();
            proof {
                assert(self.generators@ =~= g0.update(self.idx as int, self.generators@[self.idx as int]));
                assert(r0[self.cur()] == g0[self.cur()].rem());
                assert(self.rems() =~= r0.update(self.cur(), self.generators@[self.cur()].rem()));
                if next.is_none() { assert(self.rems() =~= r0); }
            }
            match next {
                Some(v) => { data = v; break; },
                None => {
                    let ghost f0 = self.fin();
                    self.finished[self.idx] = true;
                    proof {
                        assert(self.rems() == r0);
                        assert(self.fin() =~= f0.update(self.cur(), true));
                    }
                    if self.all_finished() {
                        proof {
                            assert forall|q: int| 0 <= q < self.n() implies (#[trigger] self.rems()[q]).len() == 0 by {
                                assert(self.fin()[q]);
                            }
                        }
                        return None;
                    }
                    proof {
                        if !f0[self.cur()] { lemma_count_update(f0, self.cur()); }
                    }
                    self.next_idx();
                }
            };
        };
        let value = (data, self.idx);
        self.next_idx();
        Some(value)
    }
//@end
}
} // verus!
fn main() {}
