use vstd::prelude::*;
verus! {
//@include specs/std_extra.rs
pub uninterp spec fn ch_ws(s: Seq<char>) -> bool;
pub struct Character<'s> { pub str: &'s str }
impl<'s> Character<'s> {
    #[verifier::external_body]
    pub fn is_whitespace(&self) -> (r: bool) ensures r == ch_ws(self.str@) { unimplemented!() }
}
pub open spec fn chv(v: Seq<Character>) -> Seq<Seq<char>> { v.map(|i: int, c: Character| c.str@) }
pub uninterp spec fn chars_of(s: &str, g: bool) -> Seq<Seq<char>>;
pub struct CharString<'a> { pub str: &'a str, g: bool }
pub type CS<'a> = CharString<'a>;
impl<'s> CharString<'s> {
    pub closed spec fn view(&self) -> Seq<Seq<char>> { chars_of(self.str, self.g) }
    #[verifier::external_body]
    pub fn new(str: &'s str, use_graphemes: bool) -> (r: CharString<'s>) ensures r.view() == chars_of(str, use_graphemes) { unimplemented!() }
    #[verifier::external_body]
    pub fn vt_chars_vec(&self) -> (r: Vec<Character<'s>>) ensures chv(r@) == self.view() { unimplemented!() }
}

pub open spec fn is_word(f: Seq<Seq<char>>, a: int, b: int) -> bool {
    &&& 0 <= a < b <= f.len()
    &&& forall|k: int| a <= k < b ==> !ch_ws(#[trigger] f[k])
    &&& (a == 0 || ch_ws(f[a - 1]))
    &&& (b == f.len() || ch_ws(f[b]))
}
pub open spec fn words_ok(f: Seq<Seq<char>>, w: Seq<(usize, usize)>, upto: int) -> bool {
    // every entry is a word ending at or before `upto`, entries strictly increasing
    &&& forall|x: int| 0 <= x < w.len() ==> is_word(f, (#[trigger] w[x]).0 as int, w[x].1 as int) && w[x].1 <= upto
    &&& forall|x: int, y: int| 0 <= x < y < w.len() ==> w[x].1 < w[y].0
}
pub open spec fn covered(f: Seq<Seq<char>>, w: Seq<(usize, usize)>, k: int) -> bool {
    exists|x: int| 0 <= x < w.len() && (#[trigger] w[x]).0 <= k < w[x].1
}

//@unit src/text.rs fn word_boundaries rules=R15_enum
#[verifier::loop_isolation(false)]
pub fn word_boundaries(s: &str, use_graphemes: bool) -> (res: Vec<(usize, usize)>)
    ensures
        words_ok(chars_of(s, use_graphemes), res@, chars_of(s, use_graphemes).len() as int),
        forall|k: int| 0 <= k < chars_of(s, use_graphemes).len() && !ch_ws(#[trigger] chars_of(s, use_graphemes)[k]) ==> covered(chars_of(s, use_graphemes), res@, k),
{
    let mut boundaries = vec![];
    let mut start: Option<usize> = None;
    let mut num_elements = 0;
    let vt_v = CS::new(s, use_graphemes).vt_chars_vec();
    let ghost f = chars_of(s, use_graphemes);
    for idx in 0..vt_v.len()
        invariant
            f == chv(vt_v@), num_elements == idx,
            words_ok(f, boundaries@, idx as int),
            forall|x: int| 0 <= x < boundaries.len() ==> (#[trigger] boundaries[x]).1 < idx || (boundaries[x].1 == idx && start.is_none()),
            start.is_none() <==> (idx == 0 || ch_ws(f[idx as int - 1])),
            start.is_some() ==> ({ let a = start.unwrap() as int;
                0 <= a < idx && (a == 0 || ch_ws(f[a - 1])) && (forall|k: int| a <= k < idx ==> !ch_ws(#[trigger] f[k]))
                && forall|x: int| 0 <= x < boundaries.len() ==> (#[trigger] boundaries[x]).1 < a }),
            forall|k: int| 0 <= k < idx && !ch_ws(#[trigger] f[k]) ==> covered(f, boundaries@, k) || (start.is_some() && start.unwrap() <= k),
    {
        let char = &vt_v[idx];
        let ghost b0 = boundaries@;
        proof { assert(f[idx as int] == char.str@); }
        match (char.is_whitespace(), start) {
            (true, Some(start_idx)) => {
                boundaries.push((start_idx, idx));
                start = None;
                proof {
                    assert forall|k: int| 0 <= k < idx + 1 && !ch_ws(#[trigger] f[k]) implies covered(f, boundaries@, k) by {
                        if covered(f, b0, k) {
                            let x = choose|x: int| 0 <= x < b0.len() && (#[trigger] b0[x]).0 <= k < b0[x].1;
                            assert(boundaries@[x] == b0[x]);
                        } else {
                            assert(boundaries@[b0.len() as int].0 <= k < boundaries@[b0.len() as int].1);
                        }
                    }
                }
            }
            (false, None) => start = Some(idx),
            _ => (),
        }
        num_elements += 1;
    }
    // add potential last word (not captured by the for loop above)
    if let Some(start) = start {
        if start < num_elements {
            let ghost b0 = boundaries@;
            boundaries.push((start, num_elements));
            proof {
                assert forall|k: int| 0 <= k < f.len() && !ch_ws(#[trigger] f[k]) implies covered(f, boundaries@, k) by {
                    if covered(f, b0, k) {
                        let x = choose|x: int| 0 <= x < b0.len() && (#[trigger] b0[x]).0 <= k < b0[x].1;
                        assert(boundaries@[x] == b0[x]);
                    } else {
                        assert(boundaries@[b0.len() as int].0 <= k < boundaries@[b0.len() as int].1);
                    }
                }
            }
        }
    }
    boundaries
}
//@end
} // verus!
fn main() {}
