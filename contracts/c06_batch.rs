// C06 -- batch limit accounting and Batched::batch_from (greedy, order preserving, never empty, limit respected)
use vstd::prelude::*;
verus! {
//@include specs/std_extra.rs
// ---------------------------------------------------------------- trusted prelude
/// the size an item reports (`ItemSize::size`), as a pure function of the item
pub uninterp spec fn item_size_ref<T: ?Sized>(t: &T) -> usize;
pub open spec fn item_size<T>(t: T) -> usize { item_size_ref(&t) }

//@unit src/data/loading.rs trait ItemSize
pub trait ItemSize {
    fn size(&self) -> (r: usize)
        ensures r == item_size_ref(self);
}
//@end

//@unit src/data/mod.rs type Batch
pub type Batch<T> = Vec<T>;
//@end

//@unit src/data/loading.rs enum BatchLimitType
#[derive(Copy, Clone, PartialEq)]
pub enum BatchLimitType {
    BatchSize,
    PaddedItemSize,
}
//@end

//@unit src/data/loading.rs enum BatchLimit
//@rule derive_only(Debug)
#[derive(Debug)]
enum BatchLimit {
    BatchSize(usize),
    TotalItemSize(usize, usize),
}
//@end

/// stand-in for `#[derive(Clone)]` on BatchLimit (dropped by derive_only): a structural copy -- Verus gives a derived
/// non-Copy Clone no meaning, so edits that call `.clone()` would otherwise be unverifiable
impl Clone for BatchLimit {
    fn clone(&self) -> (r: Self)
        ensures r == *self,
    {
        match self {
            BatchLimit::BatchSize(c) => BatchLimit::BatchSize(*c),
            BatchLimit::TotalItemSize(c, m) => BatchLimit::TotalItemSize(*c, *m),
        }
    }
}

pub open spec fn sizes<T>(s: Seq<T>) -> Seq<usize> { s.map(|k: int, t: T| item_size(t)) }
pub open spec fn max_of(s: Seq<usize>) -> usize
    decreases s.len()
{
    if s.len() == 0 { 0 } else if s.last() >= max_of(s.drop_last()) { s.last() } else { max_of(s.drop_last()) }
}
/// THE limit of the property statement: item count, or count times largest item size
pub open spec fn lim(s: Seq<usize>, ty: BatchLimitType) -> int {
    match ty {
        BatchLimitType::BatchSize => s.len() as int,
        BatchLimitType::PaddedItemSize => s.len() * max_of(s),
    }
}
proof fn lemma_max_push(s: Seq<usize>, x: usize)
    ensures max_of(s.push(x)) == (if x >= max_of(s) { x } else { max_of(s) }),
{
    assert(s.push(x).drop_last() =~= s);
}
proof fn lemma_max_bound(s: Seq<usize>, lo: usize, hi: usize)
    requires forall|k: int| 0 <= k < s.len() ==> lo <= #[trigger] s[k] <= hi,
    ensures s.len() > 0 ==> lo <= max_of(s) <= hi, s.len() == 0 ==> max_of(s) == 0,
    decreases s.len()
{
    if s.len() > 0 {
        assert forall|k: int| 0 <= k < s.drop_last().len() implies lo <= #[trigger] s.drop_last()[k] <= hi by { assert(s.drop_last()[k] == s[k]); }
        lemma_max_bound(s.drop_last(), lo, hi);
    }
}

/// `ITEMS.iter().map(|i| i.size()).max().unwrap_or(0)` (R6)
#[verifier::external_body]
fn vt_max_size<T: ItemSize>(items: &[T]) -> (r: usize)
    ensures r == max_of(sizes(items@)),
{ unimplemented!() }

/// Rust allocations are at most isize::MAX bytes: a Vec of a non-zero-sized type never has more than isize::MAX elements
#[verifier::external_body]
proof fn axiom_vec_len<T>(v: &Vec<T>)
    ensures v.len() <= isize::MAX,
{}

impl BatchLimit {
    spec fn cnt(&self) -> int { match self { BatchLimit::BatchSize(c) => *c as int, BatchLimit::TotalItemSize(c, _) => *c as int } }
    spec fn mx(&self) -> int { match self { BatchLimit::BatchSize(_) => 0, BatchLimit::TotalItemSize(_, m) => *m as int } }
    spec fn ty(&self) -> BatchLimitType { match self { BatchLimit::BatchSize(_) => BatchLimitType::BatchSize, BatchLimit::TotalItemSize(_, _) => BatchLimitType::PaddedItemSize } }
    /// the accounting record describes exactly the item sizes `s`
    spec fn tracks(&self, s: Seq<usize>, t: BatchLimitType) -> bool {
        self.ty() == t && self.cnt() == s.len() && (t == BatchLimitType::PaddedItemSize ==> self.mx() == max_of(s))
    }
    spec fn value(&self) -> int { match self { BatchLimit::BatchSize(c) => *c as int, BatchLimit::TotalItemSize(c, m) => *c * *m } }

//@unit src/data/loading.rs fn from_items impl=^impl\sBatchLimit$
//@rule R6_max_size
    fn from_items(items: &[impl ItemSize], limit_type: &BatchLimitType) -> (r: Self)
        ensures r.tracks(sizes(items@), *limit_type),
    {
        match limit_type {
            BatchLimitType::BatchSize => Self::BatchSize(items.len()),
            BatchLimitType::PaddedItemSize => Self::TotalItemSize(
                items.len(),
                vt_max_size(items),
            ),
        }
    }
//@end

//@unit src/data/loading.rs fn update impl=^impl\sBatchLimit$
    fn update(self, item: &impl ItemSize) -> (r: Self)
        requires self.cnt() < usize::MAX,
        ensures
            r.ty() == self.ty(), r.cnt() == self.cnt() + 1,
            self.ty() == BatchLimitType::PaddedItemSize ==> r.mx() == (if item_size(*item) >= self.mx() { item_size(*item) as int } else { self.mx() }),
            forall|s: Seq<usize>, t: BatchLimitType| self.tracks(s, t) ==> #[trigger] r.tracks(s.push(item_size(*item)), t),
    {
        proof {
            assert forall|s: Seq<usize>, t: BatchLimitType| self.tracks(s, t) implies max_of(s.push(item_size(*item))) == (if item_size(*item) >= max_of(s) { item_size(*item) } else { max_of(s) }) by {
                lemma_max_push(s, item_size(*item));
            }
        }
        match self {
            BatchLimit::BatchSize(count) => BatchLimit::BatchSize(count + 1),
            BatchLimit::TotalItemSize(count, max_length) => {
                BatchLimit::TotalItemSize(count + 1, max_length.max(item.size()))
            }
        }
    }
//@end

//@unit src/data/loading.rs fn limit impl=^impl\sBatchLimit$
    fn limit(&self) -> (r: usize)
        requires self.value() <= usize::MAX,
        ensures r == self.value(),
            forall|s: Seq<usize>, t: BatchLimitType| self.tracks(s, t) ==> r == #[trigger] lim(s, t),
    {
        match self {
            BatchLimit::BatchSize(count) => *count,
            BatchLimit::TotalItemSize(count, max_length) => *count * *max_length,
        }
    }
//@end
}

// ---------------------------------------------------------------- batch_from
/// what `batch_from` may produce from the values g = [g0, g1, ...] its source returned, in call order
pub open spec fn batch_ok<T>(items: Seq<T>, rem: Option<T>, g: Seq<T>, limit: int, ty: BatchLimitType) -> bool {
    // order preserved, nothing lost or duplicated
    &&& g == (match rem { Some(r) => items.push(r), None => items })
    // never empty
    &&& items.len() > 0
    // the limit holds for every batch with more than one item
    &&& (items.len() > 1 ==> lim(sizes(items), ty) <= limit)
    // greedy-maximal: the remainder would not have fitted
    &&& (rem.is_some() ==> lim(sizes(items.push(rem.unwrap())), ty) > limit)
}

/// domain restriction on the source of `batch_from`: every item it returns has a size in [1, smax]
pub open spec fn size_bounded<T, F: FnMut() -> Option<T>>(f: F, limit: usize, smax: usize) -> bool {
    smax >= 1 && (limit + 2) * smax <= usize::MAX
        && forall|q: (), o: Option<T>| #[trigger] f.ensures(q, o) && o.is_some() ==> 1 <= item_size(o.unwrap()) <= smax
}

pub struct Batched<I, T> { i: I, t: T }

impl<I, T> Batched<I, T>
where
    I: Iterator<Item = T>,
    T: ItemSize,
{
//@unit src/data/loading.rs fn batch_from
//@rule R8
    fn batch_from(
        mut f: impl FnMut() -> Option<T>,
        limit: usize,
        limit_type: BatchLimitType,
    ) -> (res: (Option<Batch<T>>, Option<T>))
        requires
            forall|q: ()| #[trigger] f.requires(q),
            // domain restriction (machine arithmetic): item sizes in [1, smax] for the padded limit, (limit + 2) * smax addressable
            limit + 2 <= usize::MAX,
            exists|smax: usize| #[trigger] size_bounded(f, limit, smax),
        ensures
            res.0.is_none() ==> res.1.is_none(),
            res.0.is_some() ==> res.0.unwrap().len() > 0,
            res.0.is_some() && res.0.unwrap().len() > 1 ==> lim(sizes(res.0.unwrap()@), limit_type) <= limit,
            res.0.is_some() && res.1.is_some() ==> lim(sizes(res.0.unwrap()@.push(res.1.unwrap())), limit_type) > limit,
    {
        // the implementation makes sure that always at least 1 item is returned
        // in the batch, even if the item solely exceeds the specified limit
        let mut items = vec![];
        let mut batch_limit = BatchLimit::from_items(&items, &limit_type);
        let ghost smax = choose|smax: usize| #[trigger] size_bounded(f, limit, smax);
        // ghost log of the values the source returned during this call, in call order
        let ghost mut g: Seq<T> = Seq::empty();
        let remainder;
        loop
            invariant_except_break
                g == items@,
                batch_limit.tracks(sizes(items@), limit_type),
                items.len() > 1 ==> lim(sizes(items@), limit_type) <= limit,
            invariant
                forall|q: ()| #[trigger] f.requires(q),
                limit + 2 <= usize::MAX, smax >= 1, (limit + 2) * smax <= usize::MAX,
                forall|q: (), o: Option<T>| #[trigger] f.ensures(q, o) && o.is_some() ==> 1 <= item_size(o.unwrap()) <= smax,
                forall|k: int| 0 <= k < items.len() ==> 1 <= #[trigger] sizes(items@)[k] <= smax,
                items.len() <= limit + 1,
            ensures
                batch_ok(items@, remainder, g, limit as int, limit_type),
            decreases limit + 2 - items.len(),
        {
            let Some(item) = f() else {
                proof { assert(batch_ok(items@, None, g, limit as int, limit_type) || items.len() == 0); }
                return if items.is_empty() {
                    (None, None)
                } else {
                    (Some(items), None)
                };
            };
            proof {
                g = g.push(item);
                lemma_max_bound(sizes(items@), 1, smax);
                assert(batch_limit.cnt() <= limit + 1);
            }
            batch_limit = batch_limit.update(&item);
            proof {
                let s1 = sizes(items@).push(item_size(item));
                assert(sizes(items@.push(item)) =~= s1);
                assert(batch_limit.tracks(s1, limit_type));
                assert forall|k: int| 0 <= k < s1.len() implies 1 <= #[trigger] s1[k] <= smax by {
                    if k < items.len() { assert(s1[k] == sizes(items@)[k]); }
                }
                lemma_max_bound(s1, 1, smax);
                assert(s1.len() * max_of(s1) <= (limit + 2) * smax) by (nonlinear_arith)
                    requires s1.len() <= limit + 2, max_of(s1) <= smax, 0 <= s1.len(), 0 <= max_of(s1);
            }
            if batch_limit.limit() > limit && !items.is_empty() {
                // if adding the item would overshoot
                // just return it as remainder
                { remainder = Some(item); break; };
            } else {
                // if adding the item would not overshoot, just add it
                // and increase the batch limit counter
                items.push(item);
                proof {
                    // the batch stays within the count bound: with sizes >= 1 the count is at most the limit
                    let s1 = sizes(items@);
                    if items.len() > 1 {
                        assert(lim(s1, limit_type) <= limit);
                        if limit_type == BatchLimitType::PaddedItemSize {
                            assert(s1.len() <= s1.len() * max_of(s1)) by (nonlinear_arith) requires max_of(s1) >= 1, s1.len() >= 0;
                        }
                    }
                }
            }
        };
        (Some(items), remainder)
    }
//@end
}
} // verus!
fn main() {}
