use vstd::prelude::*;
verus! {
//@include specs/std_extra.rs

#[derive(Debug)]
pub struct AnyhowError;
#[verifier::external_body]
fn vt_anyhow() -> AnyhowError { AnyhowError }
pub type VtResult<T> = Result<T, AnyhowError>;


pub uninterp spec fn char_boundary(s: &str, i: int) -> bool;
pub uninterp spec fn str_bytes(s: &str) -> Seq<u8>;

#[verifier::external_body]
fn vt_str_slice<'a>(s: &'a str, a: usize, b: usize) -> (r: &'a str)
    requires a <= b <= str_bytes(s).len(), char_boundary(s, a as int), char_boundary(s, b as int),
    ensures str_bytes(r) == str_bytes(s).subrange(a as int, b as int),
{ &s[a..b] }

#[verifier::external_body]
fn vt_str_len(s: &str) -> (r: usize) ensures r == str_bytes(s).len() { s.len() }
// ---------------- specs ----------------
pub open spec fn count_all(rle: Seq<(usize, usize)>) -> int
    decreases rle.len()
{
    if rle.len() == 0 { 0 } else { rle[0].1 as int + count_all(rle.skip(1)) }
}

pub open spec fn bytes_all(rle: Seq<(usize, usize)>) -> int
    decreases rle.len()
{
    if rle.len() == 0 { 0 } else { rle[0].0 as int * rle[0].1 as int + bytes_all(rle.skip(1)) }
}

// number of bytes before character n (0 <= n <= count_all)
pub open spec fn pre(rle: Seq<(usize, usize)>, n: int) -> int
    decreases rle.len()
{
    if rle.len() == 0 { 0 }
    else if n < rle[0].1 as int { rle[0].0 as int * n }
    else { rle[0].0 as int * rle[0].1 as int + pre(rle.skip(1), n - rle[0].1 as int) }
}

// byte length of character n
pub open spec fn len_at(rle: Seq<(usize, usize)>, n: int) -> int
    decreases rle.len()
{
    if rle.len() == 0 { 0 }
    else if n < rle[0].1 as int { rle[0].0 as int }
    else { len_at(rle.skip(1), n - rle[0].1 as int) }
}

pub open spec fn rle_ok(rle: Seq<(usize, usize)>) -> bool {
    forall|k: int| 0 <= k < rle.len() ==> (#[trigger] rle[k]).0 >= 1 && rle[k].1 >= 1
}

proof fn lemma_bytes_nonneg(rle: Seq<(usize, usize)>)
    ensures bytes_all(rle) >= 0
    decreases rle.len()
{
    if rle.len() > 0 {
        lemma_bytes_nonneg(rle.skip(1));
        assert(rle[0].0 as int * rle[0].1 as int >= 0) by (nonlinear_arith) requires rle[0].0 >= 0, rle[0].1 >= 0;
    }
}
proof fn lemma_count_nonneg(rle: Seq<(usize, usize)>)
    ensures count_all(rle) >= 0
    decreases rle.len()
{ if rle.len() > 0 { lemma_count_nonneg(rle.skip(1)); } }

pub open spec fn count_ok(rle: Seq<(usize, usize)>, n: int) -> bool { 0 <= n < count_all(rle) }

proof fn lemma_pre_step(rle: Seq<(usize, usize)>, n: int)
    requires rle_ok(rle), 0 <= n < count_all(rle),
    ensures pre(rle, n + 1) == pre(rle, n) + len_at(rle, n), len_at(rle, n) >= 1,
    decreases rle.len()
{
    if rle.len() > 0 {
        let (b, c) = (rle[0].0 as int, rle[0].1 as int);
        assert(rle_ok(rle.skip(1))) by { assert forall|k: int| 0 <= k < rle.skip(1).len() implies (#[trigger] rle.skip(1)[k]).0 >= 1 && rle.skip(1)[k].1 >= 1 by { assert(rle.skip(1)[k] == rle[k + 1]); } }
        if n + 1 < c {
            assert(b * (n + 1) == b * n + b) by (nonlinear_arith);
        } else if n < c {
            // n + 1 == c
            lemma_count_nonneg(rle.skip(1));
            assert(b * (n + 1) == b * n + b) by (nonlinear_arith);
            assert(pre(rle.skip(1), 0) == 0);
        } else {
            lemma_pre_step(rle.skip(1), n - c);
        }
    }
}
proof fn lemma_pre_mono(rle: Seq<(usize, usize)>, a: int, b: int)
    requires rle_ok(rle), 0 <= a <= b <= count_all(rle),
    ensures pre(rle, a) <= pre(rle, b),
    decreases b - a
{
    if a < b { lemma_pre_mono(rle, a, b - 1); lemma_pre_step(rle, b - 1); }
}
proof fn lemma_pre_le_total(rle: Seq<(usize, usize)>, n: int)
    requires rle_ok(rle), 0 <= n <= count_all(rle),
    ensures 0 <= pre(rle, n) <= bytes_all(rle), pre(rle, count_all(rle)) == bytes_all(rle),
    decreases rle.len()
{
    lemma_pre_total(rle);
    lemma_pre_mono(rle, 0, n);
    lemma_pre_mono(rle, n, count_all(rle));
    assert(pre(rle, 0) == 0) by { if rle.len() > 0 { assert(rle[0].0 as int * 0 == 0); } }
}
proof fn lemma_pre_total(rle: Seq<(usize, usize)>)
    requires rle_ok(rle),
    ensures pre(rle, count_all(rle)) == bytes_all(rle),
    decreases rle.len()
{
    if rle.len() > 0 {
        assert(rle_ok(rle.skip(1))) by { assert forall|k: int| 0 <= k < rle.skip(1).len() implies (#[trigger] rle.skip(1)[k]).0 >= 1 && rle.skip(1)[k].1 >= 1 by { assert(rle.skip(1)[k] == rle[k + 1]); } }
        lemma_count_nonneg(rle.skip(1));
        lemma_pre_total(rle.skip(1));
    }
}

//@unit src/unicode.rs struct CharString
#[derive(Debug, Clone)]
pub struct CharString<'a> {
    pub str: &'a str,
    rle_cluster_lengths: Vec<(usize, usize)>,
    len: usize,
}
//@end

impl<'s> CharString<'s> {
    pub closed spec fn rle(&self) -> Seq<(usize, usize)> { self.rle_cluster_lengths@ }
    pub closed spec fn n(&self) -> int { self.len as int }
    pub closed spec fn wf(&self) -> bool {
        &&& rle_ok(self.rle_cluster_lengths@)
        &&& self.len == count_all(self.rle_cluster_lengths@)
        &&& bytes_all(self.rle_cluster_lengths@) <= usize::MAX
        &&& bytes_all(self.rle_cluster_lengths@) == str_bytes(self.str).len()
        &&& forall|k: int| 0 <= k <= self.len ==> char_boundary(self.str, #[trigger] pre(self.rle_cluster_lengths@, k))
    }
    pub closed spec fn text(&self) -> &'s str { self.str }

    #[verifier::external_body]
    pub fn new(str: &'s str, use_graphemes: bool) -> (r: CharString<'s>)
        ensures r.wf(), r.text() == str,
    { unimplemented!() }

//@unit src/unicode.rs fn byte_start_end impl=^impl<'s>CharString<'s>$
//@rule R10(num_bytes ;; count)
    #[verifier::loop_isolation(false)]
    #[verifier::loop_isolation(false)]
    pub fn byte_start_end(&self, n: usize) -> (r: (usize, usize))
        requires self.wf(), n < self.n(),
        ensures r.0 == pre(self.rle(), n as int),
                r.1 == r.0 + len_at(self.rle(), n as int),
    {
        let mut start = 0;
        let mut total_count = 0;
        proof { assert(self.rle().skip(0) =~= self.rle()); }
        let ghost mut gi: int = 0;
        for (num_bytes, count) in it: &self.rle_cluster_lengths
            invariant
                self.wf(), n < self.n(),
                it.seq().len() == self.rle().len(),
                forall|k: int| 0 <= k < self.rle().len() ==> *it.seq()[k] == self.rle()[k],
                total_count <= n,
                gi == it.index,
                total_count + count_all(self.rle().skip(it.index as int)) == self.n(),
                start + bytes_all(self.rle().skip(it.index as int)) == bytes_all(self.rle()),
                pre(self.rle(), n as int) == start + pre(self.rle().skip(it.index as int), n - total_count),
                len_at(self.rle(), n as int) == len_at(self.rle().skip(it.index as int), n - total_count),
        {
            proof {
                let r = self.rle().skip(it.index as int);
                assert(r[0] == self.rle()[it.index as int]);
                assert(r.skip(1) =~= self.rle().skip(it.index as int + 1));
                assert(r.len() > 0);
                assert(*num_bytes == r[0].0 && *count == r[0].1);
                assert(count_all(r) == r[0].1 as int + count_all(r.skip(1)));
                assert(bytes_all(r) == r[0].0 as int * r[0].1 as int + bytes_all(r.skip(1)));
                assert(r[0].1 as int * r[0].0 as int == r[0].0 as int * r[0].1 as int) by (nonlinear_arith);
                let m = n - total_count;
                assert(pre(r, m) == if m < r[0].1 as int { r[0].0 as int * m } else { r[0].0 as int * r[0].1 as int + pre(r.skip(1), m - r[0].1 as int) });
                assert(len_at(r, m) == if m < r[0].1 as int { r[0].0 as int } else { len_at(r.skip(1), m - r[0].1 as int) });
                lemma_bytes_nonneg(r.skip(1));
                lemma_count_nonneg(r.skip(1));
                assert(r[0].0 as int * r[0].1 as int >= 0) by (nonlinear_arith) requires r[0].0 >= 0, r[0].1 >= 0;
                if n < total_count + r[0].1 {
                    assert(r[0].0 as int * (n - total_count) <= r[0].0 as int * r[0].1 as int) by (nonlinear_arith)
                        requires n - total_count <= r[0].1 as int, r[0].0 >= 0;
                    assert(r[0].0 as int * (n - total_count) >= 0) by (nonlinear_arith) requires n - total_count >= 0, r[0].0 >= 0;
                    assert(r[0].0 as int * (n - total_count) + r[0].0 as int <= r[0].0 as int * r[0].1 as int) by (nonlinear_arith)
                        requires n - total_count + 1 <= r[0].1 as int, r[0].0 >= 0;
                }
            }
            if n < total_count + *count {
                start += *num_bytes * (n - total_count);
                let end = start + *num_bytes;
                return (start, end);
            }
            start += *count * *num_bytes;
            total_count += *count;
            proof { gi = gi + 1; }
        }
        proof {
            let r = self.rle().skip(gi);
            assert(r.len() == 0);
        }
        panic!("should not happen")
    }
//@end
//@unit src/unicode.rs fn len impl=^impl<'s>CharString<'s>$
    pub fn len(&self) -> (r: usize)
        ensures r == self.n()
    {
        self.len
    }
//@end
//@unit src/unicode.rs fn is_empty impl=^impl<'s>CharString<'s>$
    pub fn is_empty(&self) -> (r: bool)
        ensures r == (self.n() == 0)
    {
        self.len == 0
    }
//@end
//@unit src/unicode.rs fn char_byte_len impl=^impl<'s>CharString<'s>$
    #[verifier::loop_isolation(false)]
    pub fn char_byte_len(&self, n: usize) -> (r: usize)
        requires self.wf(), n < self.n(),
        ensures r == len_at(self.rle(), n as int),
    {
        proof { lemma_pre_step(self.rle(), n as int); }
        let (start, end) = self.byte_start_end(n);
        end - start
    }
//@end
//@unit src/unicode.rs fn char_range_to_byte_range impl=^impl<'s>CharString<'s>$
    pub fn char_range_to_byte_range(&self, start: usize, end: usize) -> (r: (usize, usize))
        requires self.wf(), start < end <= self.n(),
        ensures r.0 == pre(self.rle(), start as int), r.1 == pre(self.rle(), end as int), r.0 < r.1,
    {
        proof { lemma_pre_step(self.rle(), start as int); lemma_pre_step(self.rle(), end as int - 1); lemma_pre_mono(self.rle(), start as int + 1, end as int); }
        assert!(start < end && end <= self.len());
        let (start_byte, mut end_byte) = self.byte_start_end(start);
        if start < end - 1 {
            let (_, new_end_byte) = self.byte_start_end(end - 1);
            end_byte = new_end_byte;
        }
        (start_byte, end_byte)
    }
//@end
//@unit src/unicode.rs fn get impl=^impl<'s>CharString<'s>$
//@rule R11(self.str)
    pub fn get(&self, n: usize) -> (r: Option<&'s str>)
        requires self.wf(),
        ensures n >= self.n() ==> r.is_none(),
            n < self.n() ==> r.is_some() && str_bytes(r.unwrap()) == str_bytes(self.text()).subrange(pre(self.rle(), n as int), pre(self.rle(), n as int + 1)),
    {
        proof { if n < self.n() { lemma_pre_step(self.rle(), n as int); lemma_pre_le_total(self.rle(), n as int + 1); } }
        if n >= self.len() {
            return None;
        }
        let (start, end) = self.byte_start_end(n);
        Some(vt_str_slice(self.str, start, end))
    }
//@end
//@unit src/unicode.rs fn sub impl=^impl<'s>CharString<'s>$
//@rule R11(self.str)
    pub fn sub(&self, start: usize, end: usize) -> (r: &'s str)
        requires self.wf(), start <= end,
        ensures ({ let s0 = if start < self.n() { start as int } else { self.n() }; let e0 = if end < self.n() { end as int } else { self.n() };
            s0 < e0 ==> str_bytes(r) == str_bytes(self.text()).subrange(pre(self.rle(), s0), pre(self.rle(), e0)) }),
    {
        assert!(start <= end, "start cannot be larger than end");
        let start = start.min(self.len());
        let end = end.min(self.len());
        if self.is_empty() || start == end {
            return "";
        }
        proof { lemma_pre_le_total(self.rle(), start as int); lemma_pre_le_total(self.rle(), end as int); }
        let (start, end) = self.char_range_to_byte_range(start, end);
        vt_str_slice(self.str, start, end)
    }
//@end
}


//@unit src/windows.rs struct Window
#[derive(Debug, Clone)]
pub struct Window<'s> {
    ctx_start: usize,
    ctx_end: usize,
    window_start: usize,
    window_end: usize,
    byte_ctx_start: usize,
    byte_ctx_end: usize,
    byte_window_start: usize,
    byte_window_end: usize,
    pub str: &'s str,
}
//@end

//@unit src/unicode.rs type CS
pub type CS<'a> = CharString<'a>;
//@end

pub closed spec fn win_ok(w: Window, rle: Seq<(usize, usize)>, n: int, text: &str, max: int) -> bool {
    &&& w.ctx_start <= w.window_start < w.window_end <= w.ctx_end <= n
    &&& w.ctx_end - w.ctx_start <= max
    &&& w.byte_ctx_start == pre(rle, w.ctx_start as int)
    &&& w.byte_ctx_end == pre(rle, w.ctx_end as int)
    &&& w.byte_window_start == pre(rle, w.window_start as int)
    &&& w.byte_window_end == pre(rle, w.window_end as int)
    &&& str_bytes(w.str) == str_bytes(text).subrange(pre(rle, w.ctx_start as int), pre(rle, w.ctx_end as int))
}

pub closed spec fn all_ok(ws: Seq<Window>, cs: CharString, s: &str, max: int) -> bool {
    &&& cs.wf() && cs.text() == s
    &&& tiles(ws, cs.n())
    &&& forall|k: int| 0 <= k < ws.len() ==> win_ok(#[trigger] ws[k], cs.rle(), cs.n(), s, max)
}

pub closed spec fn all_ok_any(ws: Seq<Window>, s: &str, max: int) -> bool {
    exists|cs: CharString| #[trigger] all_ok(ws, cs, s, max)
}

pub closed spec fn tiles(ws: Seq<Window>, upto: int) -> bool {
    &&& (ws.len() == 0 ==> upto == 0)
    &&& (ws.len() > 0 ==> ws[0].window_start == 0 && ws[ws.len() - 1].window_end == upto)
    &&& forall|k: int| 0 <= k < ws.len() - 1 ==> (#[trigger] ws[k]).window_end == ws[k + 1].window_start
}
//@unit src/windows.rs fn char
//@rule R4
pub fn char(
    s: &str,
    max_length: usize,
    context_length: usize,
    use_graphemes: bool,
) -> (res: VtResult<Vec<Window>>)
    requires 2 * context_length <= usize::MAX, str_bytes(s).len() + max_length <= usize::MAX,
    ensures
        res.is_err() <==> max_length <= 2 * context_length,
        res.is_ok() ==> all_ok_any(res.unwrap()@, s, max_length as int),
{
    if max_length <= 2 * context_length {
        return Err(vt_anyhow());
    }
    let cs = CS::new(s, use_graphemes);
    let mut window_start = 0;
    let mut windows = vec![];
    proof { lemma_count_le_bytes(cs.rle()); }
    while window_start < cs.len()
        invariant
            cs.wf(), cs.text() == s, max_length > 2 * context_length, 2 * context_length <= usize::MAX,
            str_bytes(s).len() + max_length <= usize::MAX, cs.n() <= str_bytes(s).len(),
            window_start <= cs.n(),
            tiles(windows@, window_start as int),
            forall|k: int| 0 <= k < windows.len() ==> win_ok(#[trigger] windows[k], cs.rle(), cs.n(), s, max_length as int),
        decreases cs.n() - window_start,
    {
        proof {
            assert((1 + 1) * context_length == 2 * context_length) by (nonlinear_arith);
            assert((1 + 0) * context_length == context_length) by (nonlinear_arith);
        }
        let window_length = max_length - (1 + usize::from(window_start > 0)) * context_length;
        assert(window_length >= 1);
        assert(window_start > 0 ==> window_length + 2 * context_length == max_length);
        assert(window_start == 0 ==> window_length + context_length == max_length);
        let ctx_start = window_start.saturating_sub(context_length);
        let ctx_end = cs.len().min(window_start + window_length + context_length);
        let window_end = cs.len().min(window_start + window_length);
        let byte_ctx = cs.char_range_to_byte_range(ctx_start, ctx_end);
        let byte_window = cs.char_range_to_byte_range(window_start, window_end);
        windows.push(Window {
            ctx_start,
            window_start,
            window_end,
            ctx_end,
            byte_ctx_start: byte_ctx.0,
            byte_window_start: byte_window.0,
            byte_window_end: byte_window.1,
            byte_ctx_end: byte_ctx.1,
            str: cs.sub(ctx_start, ctx_end),
        });

        proof {
            let w = windows[windows.len() - 1];
            assert(win_ok(w, cs.rle(), cs.n(), s, max_length as int));
        }
        window_start = window_end;
    }
    proof {
        assert(window_start == cs.n());
        assert(tiles(windows@, cs.n()));
        assert(all_ok(windows@, cs, s, max_length as int));
        assert(all_ok_any(windows@, s, max_length as int));
    }
    Ok(windows)
}
//@end
proof fn lemma_count_le_bytes(rle: Seq<(usize, usize)>)
    requires rle_ok(rle),
    ensures count_all(rle) <= bytes_all(rle),
    decreases rle.len()
{
    if rle.len() > 0 {
        assert(rle_ok(rle.skip(1))) by { assert forall|k: int| 0 <= k < rle.skip(1).len() implies (#[trigger] rle.skip(1)[k]).0 >= 1 && rle.skip(1)[k].1 >= 1 by { assert(rle.skip(1)[k] == rle[k + 1]); } }
        lemma_count_le_bytes(rle.skip(1));
        assert(rle[0].0 as int * rle[0].1 as int >= rle[0].1 as int) by (nonlinear_arith) requires rle[0].0 >= 1, rle[0].1 >= 0;
    }
}

#[verifier::external_body]
fn vt_count_fwd(a: usize, b: usize, budget: usize, cs: &CS) -> (c: usize)
    requires cs.wf(), a <= b <= cs.n(),
    ensures a + c <= b, pre(cs.rle(), a + c) - pre(cs.rle(), a as int) <= budget,
        a + c < b ==> pre(cs.rle(), a + c + 1) - pre(cs.rle(), a as int) > budget,
{ unimplemented!() }
#[verifier::external_body]
fn vt_count_bwd(a: usize, b: usize, budget: usize, cs: &CS) -> (c: usize)
    requires cs.wf(), a <= b <= cs.n(),
    ensures a + c <= b, pre(cs.rle(), b as int) - pre(cs.rle(), b - c) <= budget,
        a + c < b ==> pre(cs.rle(), b as int) - pre(cs.rle(), b - c - 1) > budget,
{ unimplemented!() }

pub closed spec fn bwin_ok(w: Window, rle: Seq<(usize, usize)>, n: int, text: &str, max: int) -> bool {
    &&& w.ctx_start <= w.window_start < w.window_end <= w.ctx_end <= n
    &&& pre(rle, w.ctx_end as int) - pre(rle, w.ctx_start as int) <= max
    &&& w.byte_ctx_start == pre(rle, w.ctx_start as int)
    &&& w.byte_ctx_end == pre(rle, w.ctx_end as int)
    &&& w.byte_window_start == pre(rle, w.window_start as int)
    &&& w.byte_window_end == pre(rle, w.window_end as int)
    &&& str_bytes(w.str) == str_bytes(text).subrange(pre(rle, w.ctx_start as int), pre(rle, w.ctx_end as int))
}
pub closed spec fn ball_ok(ws: Seq<Window>, cs: CharString, s: &str, max: int) -> bool {
    &&& cs.wf() && cs.text() == s
    &&& tiles(ws, cs.n())
    &&& forall|k: int| 0 <= k < ws.len() ==> bwin_ok(#[trigger] ws[k], cs.rle(), cs.n(), s, max)
}
pub closed spec fn ball_ok_any(ws: Seq<Window>, s: &str, max: int) -> bool {
    exists|cs: CharString| #[trigger] ball_ok(ws, cs, s, max)
}
//@unit src/windows.rs fn byte
//@rule R4
//@rule R6_count_until
pub fn byte(
    s: &str,
    max_bytes: usize,
    context_bytes: usize,
    use_graphemes: bool,
) -> (res: VtResult<Vec<Window>>)
    requires 2 * context_bytes <= usize::MAX, str_bytes(s).len() + max_bytes <= usize::MAX,
    ensures
        max_bytes <= 2 * context_bytes ==> res.is_err(),
        res.is_ok() ==> ball_ok_any(res.unwrap()@, s, max_bytes as int),
{
    if max_bytes <= 2 * context_bytes {
        return Err(vt_anyhow());
    }
    let cs = CS::new(s, use_graphemes);

    let mut windows = vec![];
    let mut window_start = 0;
    proof { lemma_count_le_bytes(cs.rle()); }
    while window_start < cs.len()
        invariant
            cs.wf(), cs.text() == s, max_bytes > 2 * context_bytes, 2 * context_bytes <= usize::MAX,
            str_bytes(s).len() + max_bytes <= usize::MAX, cs.n() <= str_bytes(s).len(),
            window_start <= cs.n(),
            tiles(windows@, window_start as int),
            forall|k: int| 0 <= k < windows.len() ==> bwin_ok(#[trigger] windows[k], cs.rle(), cs.n(), s, max_bytes as int),
        decreases cs.n() - window_start,
    {
        proof {
            assert((1 + 1) * context_bytes == 2 * context_bytes) by (nonlinear_arith);
            assert((1 + 0) * context_bytes == context_bytes) by (nonlinear_arith);
        }
        let window_length = max_bytes - (1 + usize::from(window_start > 0)) * context_bytes;
        let window_end = window_start + vt_count_fwd(window_start, cs.len(), window_length, &cs);
        if window_end <= window_start {
            return Err({ let _vt_fmt_args = (&(cs.char_byte_len(window_start)),); vt_anyhow() });
        }
        let ctx_start =
            window_start.saturating_sub(vt_count_bwd(0, window_start, context_bytes, &cs));
        let ctx_end = window_end + vt_count_fwd(window_end, cs.len(), context_bytes, &cs);
        proof {
            lemma_pre_mono(cs.rle(), ctx_start as int, window_start as int);
            lemma_pre_mono(cs.rle(), window_start as int, window_end as int);
            lemma_pre_mono(cs.rle(), window_end as int, ctx_end as int);
        }
        let byte_ctx = cs.char_range_to_byte_range(ctx_start, ctx_end);
        let byte_window = cs.char_range_to_byte_range(window_start, window_end);

        windows.push(Window {
            ctx_start,
            window_start,
            window_end,
            ctx_end,
            byte_ctx_start: byte_ctx.0,
            byte_window_start: byte_window.0,
            byte_window_end: byte_window.1,
            byte_ctx_end: byte_ctx.1,
            str: cs.sub(ctx_start, ctx_end),
        });

        proof {
            let w = windows[windows.len() - 1];
            assert(bwin_ok(w, cs.rle(), cs.n(), s, max_bytes as int));
        }
        window_start = window_end;
    }
    proof {
        assert(window_start == cs.n());
        assert(tiles(windows@, cs.n()));
        assert(ball_ok(windows@, cs, s, max_bytes as int));
        assert(ball_ok_any(windows@, s, max_bytes as int));
    }
    Ok(windows)
}
//@end

#[verifier::external_body]
fn vt_str_is_empty(s: &str) -> (r: bool) ensures r == (str_bytes(s).len() == 0) { s.is_empty() }

//@unit src/windows.rs enum WindowConfig
//@rule derive_only(Debug)
#[derive(Debug)]
pub enum WindowConfig {
    Character(usize, usize, bool),
    Bytes(usize, usize, bool),
    Full(bool),
}
//@end

/// the dispatcher: an empty text gives one empty window; otherwise the configured windowing (Full = one window)
pub closed spec fn full_ok(ws: Seq<Window>, s: &str) -> bool {
    exists|cs: CharString| #[trigger] cs.wf() && cs.text() == s && ws.len() == 1 && tiles(ws, cs.n())
        && ws[0].ctx_start == 0 && ws[0].ctx_end == cs.n() && ws[0].byte_ctx_start == 0 && ws[0].byte_ctx_end == str_bytes(s).len()
        && ws[0].byte_window_start == 0 && ws[0].byte_window_end == str_bytes(s).len() && ws[0].str == s
}

//@unit src/windows.rs fn windows
//@rule R4
//@rule R11_str(s)
pub fn windows<'a>(s: &'a str, config: &WindowConfig) -> (res: VtResult<Vec<Window<'a>>>)
    requires
        // domain restrictions of char() / byte()
        (match *config {
            WindowConfig::Character(m, c, _) => 2 * c <= usize::MAX && str_bytes(s).len() + m <= usize::MAX,
            WindowConfig::Bytes(m, c, _) => 2 * c <= usize::MAX && str_bytes(s).len() + m <= usize::MAX,
            WindowConfig::Full(_) => true,
        }),
    ensures
        str_bytes(s).len() > 0 && res.is_ok() ==> (match *config {
            WindowConfig::Character(m, c, _) => all_ok_any(res.unwrap()@, s, m as int),
            WindowConfig::Bytes(m, c, _) => ball_ok_any(res.unwrap()@, s, m as int),
            WindowConfig::Full(_) => full_ok(res.unwrap()@, s),
        }),
        // an impossible configuration is an error
        str_bytes(s).len() > 0 ==> (match *config {
            WindowConfig::Character(m, c, _) => res.is_err() <==> m <= 2 * c,
            WindowConfig::Bytes(m, c, _) => m <= 2 * c ==> res.is_err(),
            WindowConfig::Full(_) => res.is_ok(),
        }),
{
    if vt_str_is_empty(s) {
        return Ok(vec![Window {
            ctx_start: 0,
            window_start: 0,
            window_end: 0,
            ctx_end: 0,
            byte_ctx_start: 0,
            byte_window_start: 0,
            byte_window_end: 0,
            byte_ctx_end: 0,
            str: s,
        }]);
    }
    match *config {
        WindowConfig::Character(max_chars, context_chars, use_graphemes) => {
            char(s, max_chars, context_chars, use_graphemes)
        }
        WindowConfig::Bytes(max_bytes, context_bytes, use_graphemes) => {
            byte(s, max_bytes, context_bytes, use_graphemes)
        }
        WindowConfig::Full(use_graphemes) => {
            let cs = CS::new(s, use_graphemes);
            proof { lemma_pre_le_total(cs.rle(), cs.n()); lemma_count_le_bytes(cs.rle()); }
            Ok(vec![Window {
                ctx_start: 0,
                window_start: 0,
                window_end: cs.len(),
                ctx_end: cs.len(),
                byte_ctx_start: 0,
                byte_window_start: 0,
                byte_window_end: vt_str_len(s),
                byte_ctx_end: vt_str_len(s),
                str: s,
            }])
        }
    }
}
//@end
} // verus!
fn main() {}
