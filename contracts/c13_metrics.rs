// C13 -- correction metrics (partial): binary_f1 = F-beta of the four-way count, length mismatch is an error;
//        the value-level contract of metrics::_f1 (finite, in [0,1], calibrated) is the Kani function contract
//        kani/metrics_f1 on the same extracted text.
use vstd::prelude::*;
use vstd::std_specs::ops::*;
use vstd::std_specs::cmp::{PartialOrdSpec, PartialEqSpec};
verus! {
//@include specs/std_extra.rs
#[derive(Debug)]
pub struct AnyhowError;
#[verifier::external_body]
fn vt_anyhow() -> AnyhowError { AnyhowError }
pub type VtResult<T> = Result<T, AnyhowError>;

//@unit src/metrics.rs type F1PrecRec
pub type F1PrecRec = (f64, f64, f64);
//@end

/// defining counts of binary F1: predictions p against targets t
pub open spec fn count_where(p: Seq<bool>, t: Seq<bool>, pv: bool, tv: bool) -> nat
    decreases p.len()
{
    if p.len() == 0 || t.len() != p.len() { 0 }
    else { count_where(p.drop_last(), t.drop_last(), pv, tv) + if p.last() == pv && t.last() == tv { 1nat } else { 0nat } }
}
fn vt_min(a: usize, b: usize) -> (r: usize) ensures r == if a <= b { a } else { b } { if a <= b { a } else { b } }
proof fn lemma_count_bound(p: Seq<bool>, t: Seq<bool>)
    requires p.len() == t.len(),
    ensures count_where(p, t, true, true) + count_where(p, t, true, false) + count_where(p, t, false, true) <= p.len(),
    decreases p.len()
{
    if p.len() > 0 { lemma_count_bound(p.drop_last(), t.drop_last()); }
}

//@unit src/metrics.rs fn _count_tp_fp_fn
//@rule R20((usize, usize, usize))
#[verifier::loop_isolation(false)]
fn _count_tp_fp_fn(a: &[bool], b: &[bool]) -> (r: (usize, usize, usize))
    requires a.len() == b.len(),
    ensures r.0 == count_where(a@, b@, true, true), r.1 == count_where(a@, b@, true, false), r.2 == count_where(a@, b@, false, true),
        r.0 + r.1 + r.2 <= a.len(),   // the three counts are over disjoint positions
{
    proof { lemma_count_bound(a@, b@); }
    { let mut vt_acc: (usize, usize, usize) = (0, 0, 0); for vt_i in 0..vt_min(a.len(), b.len())
        invariant
            a.len() == b.len(),
            vt_acc.0 == count_where(a@.subrange(0, vt_i as int), b@.subrange(0, vt_i as int), true, true),
            vt_acc.1 == count_where(a@.subrange(0, vt_i as int), b@.subrange(0, vt_i as int), true, false),
            vt_acc.2 == count_where(a@.subrange(0, vt_i as int), b@.subrange(0, vt_i as int), false, true),
            vt_acc.0 + vt_acc.1 + vt_acc.2 <= vt_i,
    { let (tp, fp, fn_) = vt_acc; let (p, t) = (a[vt_i], b[vt_i]);
        proof {
            let (a1, b1) = (a@.subrange(0, vt_i as int + 1), b@.subrange(0, vt_i as int + 1));
            assert(a1.drop_last() =~= a@.subrange(0, vt_i as int) && b1.drop_last() =~= b@.subrange(0, vt_i as int));
            assert(a1.last() == p && b1.last() == t);
        }
        vt_acc = match (p, t) {
            (true, true) => (tp + 1, fp, fn_),
            (true, false) => (tp, fp + 1, fn_),
            (false, true) => (tp, fp, fn_ + 1),
            _ => (tp, fp, fn_),
        }; }
        proof { assert(a@.subrange(0, a.len() as int) =~= a@ && b@.subrange(0, b.len() as int) =~= b@); }
        vt_acc }
}
//@end

// ---------------------------------------------------------------- F-beta formula (floats as uninterpreted total functions)
/// `x as f64`, `x.powi(n)` (R9_cast): values are uninterpreted here
pub uninterp spec fn f_of(x: int) -> f64;
#[verifier::external_body]
fn vt_f64(x: usize) -> (r: f64) ensures r == f_of(x as int) { x as f64 }
pub uninterp spec fn powi_spec(x: f64, n: int) -> f64;
#[verifier::external_body]
fn vt_powi(x: f64, n: i32) -> (r: f64) ensures r == powi_spec(x, n as int) { x.powi(n) }
/// IEEE-754 `+ * /` on f64 never fail and are deterministic functions of their operands (vstd leaves both open)
#[verifier::external_body]
pub broadcast proof fn axiom_f64_ops(a: f64, b: f64)
    ensures
        #![trigger a.div_req(b)] #![trigger a.mul_req(b)] #![trigger a.add_req(b)]
        a.div_req(b), a.mul_req(b), a.add_req(b),
{}
#[verifier::external_body]
pub proof fn axiom_f64_obeys()
    ensures <f64 as DivSpec<f64>>::obeys_div_spec(), <f64 as MulSpec<f64>>::obeys_mul_spec(), <f64 as AddSpec<f64>>::obeys_add_spec(),
{}

/// precision / recall: tp / max(tp + other, 1)
pub open spec fn ratio_spec(tp: int, other: int) -> f64 { f_of(tp).div_spec(f_of(if tp + other >= 1 { tp + other } else { 1 })) }
/// F-beta = (1 + b^2) * P * R / (b^2 * P + R)   (the defining formula; b^2 weights precision in the denominator)
pub open spec fn fbeta_spec(p: f64, r: f64, b2: f64) -> f64 {
    (1.0f64.add_spec(b2)).mul_spec(p).mul_spec(r).div_spec(b2.mul_spec(p).add_spec(r))
}
/// exec `a > b` on f64 (vstd: uninterpreted `partial_cmp_spec`, guarded by `obeys_partial_cmp_spec`)
pub open spec fn fgt(a: f64, b: f64) -> bool { a.partial_cmp_spec(&b) == Some(core::cmp::Ordering::Greater) }
#[verifier::external_body]
pub proof fn axiom_f64_cmp()
    ensures <f64 as vstd::std_specs::cmp::PartialOrdSpec<f64>>::obeys_partial_cmp_spec(),
{}
/// the value of `_f1` as a function of the counts: (F-beta if P + R > 0 else 0, P, R)
pub open spec fn f1_spec(tp: int, fp: int, fn_: int, beta: f64) -> F1PrecRec {
    let p = ratio_spec(tp, fp);
    let r = ratio_spec(tp, fn_);
    (if fgt(p.add_spec(r), 0.0f64) { fbeta_spec(p, r, powi_spec(beta, 2)) } else { 0.0f64 }, p, r)
}
pub open spec fn f1_ok(r: F1PrecRec, tp: int, fp: int, fn_: int, beta: f64) -> bool {
    r == f1_spec(tp, fp, fn_, beta)
}

//@unit src/metrics.rs fn _f1
//@rule R9_cast
fn _f1(tp: usize, fp: usize, fn_: usize, beta: f64) -> (r: F1PrecRec)
    requires tp + fp <= usize::MAX, tp + fn_ <= usize::MAX,     // domain: the counts add up without overflow
    ensures f1_ok(r, tp as int, fp as int, fn_ as int, beta),
{
    broadcast use axiom_f64_ops;
    proof { axiom_f64_obeys(); axiom_f64_cmp(); }
    let precision = vt_f64(tp) / vt_f64((tp + fp).max(1));
    let recall = vt_f64(tp) / vt_f64((tp + fn_).max(1));
    let f1 = if precision + recall > 0.0 {
        let beta_sq = vt_powi(beta, 2);
        ((1.0 + beta_sq) * precision * recall) / (beta_sq * precision + recall)
    } else {
        0.0
    };
    (f1, precision, recall)
}
//@end

//@unit src/metrics.rs fn binary_f1
//@rule R4
pub fn binary_f1(predictions: &[bool], targets: &[bool], beta: f64) -> (res: VtResult<F1PrecRec>)
    ensures
        // a length mismatch is an error, not a panic
        res.is_err() <==> predictions.len() != targets.len(),
        // otherwise the F-beta of (true positives, false positives, false negatives)
        res.is_ok() ==> f1_ok(res.unwrap(),
            count_where(predictions@, targets@, true, true) as int,
            count_where(predictions@, targets@, true, false) as int,
            count_where(predictions@, targets@, false, true) as int, beta),
{
    if predictions.len() != targets.len() {
        return Err(vt_anyhow());
    }
    let (tp, fp, fn_) = _count_tp_fp_fn(predictions, targets);
    Ok(_f1(tp, fp, fn_, beta))
}
//@end

// ---------------------------------------------------------------- micro averaging
/// number of positions i < k at which the exec comparison `a[i] == b[i]` was true (eqs = the comparison results)
pub open spec fn count_true(eqs: Seq<bool>, k: int) -> int
    decreases k
{
    if k <= 0 || k > eqs.len() { 0 } else { count_true(eqs, k - 1) + (if eqs[k - 1] { 1int } else { 0int }) }
}
/// (number of equal positions) / max(n, 1)
pub open spec fn acc_val(c: int, n: int) -> f64 { f_of(c).div_spec(f_of(if n >= 1 { n } else { 1 })) }
proof fn lemma_count_true_bound(eqs: Seq<bool>, k: int)
    requires 0 <= k <= eqs.len(),
    ensures 0 <= count_true(eqs, k) <= k,
    decreases k
{
    if k > 0 { lemma_count_true_bound(eqs, k - 1); }
}
//@unit src/metrics.rs fn accuracy
//@rule R4
//@rule R32
//@rule R9_cast
#[verifier::loop_isolation(false)]
pub fn accuracy<T: Ord>(predictions: &[T], targets: &[T]) -> (res: VtResult<f64>)
    ensures
        // a length mismatch is an error, not a panic
        res.is_err() <==> predictions.len() != targets.len(),
        // otherwise (number of equal positions) / max(n, 1); `eqs` are the results of the element comparisons, which are
        // `eq_spec` whenever the element type's `==` has a specification
        res.is_ok() ==> exists|eqs: Seq<bool>| eqs.len() == predictions.len()
            && (T::obeys_eq_spec() ==> forall|i: int| 0 <= i < eqs.len() ==> #[trigger] eqs[i] == predictions[i].eq_spec(&targets[i]))
            && res.unwrap() == acc_val(#[trigger] count_true(eqs, eqs.len() as int), predictions.len() as int),
{
    broadcast use axiom_f64_ops;
    proof { axiom_f64_obeys(); }
    if predictions.len() != targets.len() {
        return Err(vt_anyhow());
    }
    let ghost mut eqs: Seq<bool> = Seq::empty();
    let vt_sum = { let mut vt_acc: usize = 0; for vt_i in 0..vt_min(predictions.len(), targets.len())
        invariant
            predictions.len() == targets.len(), eqs.len() == vt_i, vt_acc == count_true(eqs, vt_i as int), vt_acc <= vt_i,
            T::obeys_eq_spec() ==> forall|i: int| 0 <= i < eqs.len() ==> #[trigger] eqs[i] == predictions[i].eq_spec(&targets[i]),
    { let (p, t) = (&predictions[vt_i], &targets[vt_i]);
        let ghost e0 = eqs;
        let ghost a0 = vt_acc;
        vt_acc = vt_acc + (p == t) as usize;
        proof {
            eqs = e0.push(vt_acc != a0);
            lemma_count_true_prefix(e0, eqs, vt_i as int);
        } } vt_acc };
    Ok(vt_f64(vt_sum)
        / vt_f64(predictions.len().max(1)))
}
//@end
proof fn lemma_count_true_prefix(a: Seq<bool>, b: Seq<bool>, k: int)
    requires 0 <= k <= a.len(), a.len() <= b.len(), forall|i: int| 0 <= i < k ==> a[i] == b[i],
    ensures count_true(a, k) == count_true(b, k),
    decreases k
{
    if k > 0 { lemma_count_true_prefix(a, b, k - 1); }
}

//@unit src/metrics.rs enum F1Info
//@rule derive_only(Debug)
#[derive(Debug)]
pub enum F1Info {
    Empty,
    WhitespaceCorrectionInfo(
        (
            WhitespaceCorrections,
            WhitespaceCorrections,
            WhitespaceCorrections,
        ),
    ),
    SpellingCorrectionInfo((Vec<usize>, Vec<usize>, Vec<usize>)),
}
//@end
#[derive(Debug)]
pub enum Operation { Keep, Insert, Delete }     // whitespace::Operation (only carried inside F1Info here)
//@unit src/metrics.rs type WhitespaceCorrections
pub type WhitespaceCorrections = Vec<(usize, Operation)>;
//@end
//@unit src/metrics.rs struct TpFpFn
pub struct TpFpFn {
    values: Vec<(bool, usize, usize, usize, F1Info)>,
}
//@end
pub open spec fn sum_field(v: Seq<(bool, usize, usize, usize, F1Info)>, k: int, which: int) -> int
    decreases k
{
    if k <= 0 || k > v.len() { 0 } else {
        sum_field(v, k - 1, which) + (if which == 0 { v[k - 1].1 } else if which == 1 { v[k - 1].2 } else { v[k - 1].3 }) as int
    }
}
impl TpFpFn {
    pub closed spec fn vals(&self) -> Seq<(bool, usize, usize, usize, F1Info)> { self.values@ }
//@unit src/metrics.rs fn micro_f1
//@rule R20((usize, usize, usize))
    #[verifier::loop_isolation(false)]
    fn micro_f1(self, beta: f64) -> (r: (F1PrecRec, Vec<F1Info>))
        requires
            // domain: the summed counts fit usize
            sum_field(self.vals(), self.vals().len() as int, 0) + sum_field(self.vals(), self.vals().len() as int, 1) + sum_field(self.vals(), self.vals().len() as int, 2) <= usize::MAX,
        ensures
            // micro averaging: the F-beta of the SUMMED counts
            f1_ok(r.0, sum_field(self.vals(), self.vals().len() as int, 0), sum_field(self.vals(), self.vals().len() as int, 1),
                  sum_field(self.vals(), self.vals().len() as int, 2), beta),
            r.1.len() == self.vals().len(),
    {
        let mut infos = Vec::with_capacity(self.values.len());
        let ghost vs = self.values@;
        let ghost n = vs.len() as int;
        let ghost mut done: int = 0;
        let mut vt_acc: (usize, usize, usize) = (0, 0, 0);
        proof { lemma_sum_nonneg(vs, n, 0); lemma_sum_nonneg(vs, n, 1); lemma_sum_nonneg(vs, n, 2); }
        for (_, tp, fp, fn_, info) in it: self.values
            invariant
                done == it.index@, 0 <= done <= n, it.seq() == vs, n == vs.len(),
                sum_field(vs, n, 0) + sum_field(vs, n, 1) + sum_field(vs, n, 2) <= usize::MAX,
                vt_acc.0 == sum_field(vs, done, 0), vt_acc.1 == sum_field(vs, done, 1), vt_acc.2 == sum_field(vs, done, 2),
                infos.len() == done,
        {
            proof {
                lemma_sum_mono(vs, done + 1, n, 0); lemma_sum_mono(vs, done + 1, n, 1); lemma_sum_mono(vs, done + 1, n, 2);
                lemma_sum_nonneg(vs, done + 1, 0); lemma_sum_nonneg(vs, done + 1, 1); lemma_sum_nonneg(vs, done + 1, 2);
            }
            let (tps, fps, fns) = vt_acc;
            infos.push(info);
            vt_acc = (tps + tp, fps + fp, fns + fn_);
            proof { done = done + 1; }
        }
        let (tps, fps, fns) = vt_acc;
        (_f1(tps, fps, fns, beta), infos)
    }
//@end

    /// per-sequence value: (1,1,1) for an empty sequence pair, otherwise the F-beta triple of its counts
    pub open spec fn seq_val(e: (bool, usize, usize, usize, F1Info), beta: f64) -> F1PrecRec {
        if e.0 { (1.0f64, 1.0f64, 1.0f64) } else { f1_spec(e.1 as int, e.2 as int, e.3 as int, beta) }
    }
    /// left-to-right float sum of component `which` of the first k per-sequence values (the order fold uses)
    pub open spec fn fsum(v: Seq<(bool, usize, usize, usize, F1Info)>, k: int, which: int, beta: f64) -> f64
        decreases k
    {
        if k <= 0 || k > v.len() { 0.0f64 } else {
            let x = Self::seq_val(v[k - 1], beta);
            Self::fsum(v, k - 1, which, beta).add_spec(if which == 0 { x.0 } else if which == 1 { x.1 } else { x.2 })
        }
    }
//@unit src/metrics.rs fn sequence_averaged_f1
//@rule R20((f64, f64, f64))
//@rule R9_cast
    #[verifier::loop_isolation(false)]
    fn sequence_averaged_f1(self, beta: f64) -> (r: (F1PrecRec, Vec<F1Info>))
        requires
            // domain: every sequence's counts add up without overflow
            forall|i: int| 0 <= i < self.vals().len() ==> (#[trigger] self.vals()[i]).1 + self.vals()[i].2 <= usize::MAX && self.vals()[i].1 + self.vals()[i].3 <= usize::MAX,
        ensures
            // sequence averaging: the mean (sum / max(n, 1)) of the per-sequence values, component-wise
            ({ let v = self.vals(); let n = v.len() as int; let num = f_of(if n >= 1 { n } else { 1 });
               r.0.0 == Self::fsum(v, n, 0, beta).div_spec(num) && r.0.1 == Self::fsum(v, n, 1, beta).div_spec(num) && r.0.2 == Self::fsum(v, n, 2, beta).div_spec(num) }),
            r.1.len() == self.vals().len(),
    {
        broadcast use axiom_f64_ops;
        proof { axiom_f64_obeys(); }
        let mut infos = Vec::with_capacity(self.values.len());
        let ghost vs = self.values@;
        let ghost n = vs.len() as int;
        let ghost mut done: int = 0;
        let mut vt_acc: (f64, f64, f64) = (0.0, 0.0, 0.0);
        proof { assert(vs == self.vals()); }
        for (empty, tp, fp, fn_, info) in it: self.values
            invariant
                done == it.index@, 0 <= done <= n, it.seq() == vs, n == vs.len(),
                forall|i: int| 0 <= i < n ==> (#[trigger] vs[i]).1 + vs[i].2 <= usize::MAX && vs[i].1 + vs[i].3 <= usize::MAX,
                <f64 as AddSpec<f64>>::obeys_add_spec(),
                vt_acc.0 == Self::fsum(vs, done, 0, beta), vt_acc.1 == Self::fsum(vs, done, 1, beta), vt_acc.2 == Self::fsum(vs, done, 2, beta),
                infos.len() == done,
        {
            broadcast use axiom_f64_ops;
            proof { assert(vs[done] == (empty, tp, fp, fn_, info)); }
            let vt_m = {
                infos.push(info);
                if empty {
                    (1.0, 1.0, 1.0)
                } else {
                    _f1(tp, fp, fn_, beta)
                }
            };
            let (f1, precision, recall) = vt_acc;
            let (f1_, precision_, recall_) = vt_m;
            vt_acc = (f1 + f1_, precision + precision_, recall + recall_);
            proof {
                assert(vt_m == Self::seq_val(vs[done], beta));
                done = done + 1;
            }
        }
        let (f1, precision, recall) = vt_acc;
        let num = vt_f64(infos.len().max(1));
        ((f1 / num, precision / num, recall / num), infos)
    }
//@end
}
proof fn lemma_sum_mono(v: Seq<(bool, usize, usize, usize, F1Info)>, a: int, b: int, which: int)
    requires 0 <= a <= b <= v.len(),
    ensures sum_field(v, a, which) <= sum_field(v, b, which),
    decreases b - a
{
    if a < b { lemma_sum_mono(v, a, b - 1, which); }
}
proof fn lemma_sum_nonneg(v: Seq<(bool, usize, usize, usize, F1Info)>, k: int, which: int)
    requires 0 <= k <= v.len(),
    ensures sum_field(v, k, which) >= 0,
    decreases k
{
    if k > 0 { lemma_sum_nonneg(v, k - 1, which); }
}
} // verus!
fn main() {}
