// C13 -- correction metrics (partial): binary_f1 = F-beta of the four-way count, length mismatch is an error;
//        the value-level contract of metrics::_f1 (finite, in [0,1], calibrated) is the Kani function contract
//        kani/metrics_f1 on the same extracted text.
use vstd::prelude::*;
use vstd::std_specs::ops::*;
verus! {
#[derive(Debug)]
pub struct AnyhowError;
#[verifier::external_body]
fn vt_anyhow() -> AnyhowError { AnyhowError }
pub type VtResult<T> = Result<T, AnyhowError>;

//@unit src/metrics.rs type F1PrecRec
pub type F1PrecRec = (f64, f64, f64);
//@end

/// defining counts of binary F1: predictions p against targets t
pub open spec fn count_where(p: Seq<bool>, t: Seq<bool>, pv: bool, tv: bool) -> nat
    decreases p.len()
{
    if p.len() == 0 || t.len() != p.len() { 0 }
    else { count_where(p.drop_last(), t.drop_last(), pv, tv) + if p.last() == pv && t.last() == tv { 1nat } else { 0nat } }
}
fn vt_min(a: usize, b: usize) -> (r: usize) ensures r == if a <= b { a } else { b } { if a <= b { a } else { b } }
proof fn lemma_count_bound(p: Seq<bool>, t: Seq<bool>)
    requires p.len() == t.len(),
    ensures count_where(p, t, true, true) + count_where(p, t, true, false) + count_where(p, t, false, true) <= p.len(),
    decreases p.len()
{
    if p.len() > 0 { lemma_count_bound(p.drop_last(), t.drop_last()); }
}

//@unit src/metrics.rs fn _count_tp_fp_fn
//@rule R20((usize, usize, usize))
fn _count_tp_fp_fn(a: &[bool], b: &[bool]) -> (r: (usize, usize, usize))
    requires a.len() == b.len(),
    ensures r.0 == count_where(a@, b@, true, true), r.1 == count_where(a@, b@, true, false), r.2 == count_where(a@, b@, false, true),
        r.0 + r.1 + r.2 <= a.len(),   // the three counts are over disjoint positions
{
    proof { lemma_count_bound(a@, b@); }
    { let mut vt_acc: (usize, usize, usize) = (0, 0, 0); for vt_i in 0..vt_min(a.len(), b.len())
        invariant
            a.len() == b.len(),
            vt_acc.0 == count_where(a@.subrange(0, vt_i as int), b@.subrange(0, vt_i as int), true, true),
            vt_acc.1 == count_where(a@.subrange(0, vt_i as int), b@.subrange(0, vt_i as int), true, false),
            vt_acc.2 == count_where(a@.subrange(0, vt_i as int), b@.subrange(0, vt_i as int), false, true),
            vt_acc.0 + vt_acc.1 + vt_acc.2 <= vt_i,
    { let (tp, fp, fn_) = vt_acc; let (p, t) = (a[vt_i], b[vt_i]);
        proof {
            let (a1, b1) = (a@.subrange(0, vt_i as int + 1), b@.subrange(0, vt_i as int + 1));
            assert(a1.drop_last() =~= a@.subrange(0, vt_i as int) && b1.drop_last() =~= b@.subrange(0, vt_i as int));
            assert(a1.last() == p && b1.last() == t);
        }
        vt_acc = match (p, t) {
            (true, true) => (tp + 1, fp, fn_),
            (true, false) => (tp, fp + 1, fn_),
            (false, true) => (tp, fp, fn_ + 1),
            _ => (tp, fp, fn_),
        }; }
        proof { assert(a@.subrange(0, a.len() as int) =~= a@ && b@.subrange(0, b.len() as int) =~= b@); }
        vt_acc }
}
//@end

// ---------------------------------------------------------------- F-beta formula (floats as uninterpreted total functions)
/// `x as f64`, `x.powi(n)` (R9_cast): values are uninterpreted here
pub uninterp spec fn f_of(x: int) -> f64;
#[verifier::external_body]
fn vt_f64(x: usize) -> (r: f64) ensures r == f_of(x as int) { x as f64 }
pub uninterp spec fn powi_spec(x: f64, n: int) -> f64;
#[verifier::external_body]
fn vt_powi(x: f64, n: i32) -> (r: f64) ensures r == powi_spec(x, n as int) { x.powi(n) }
/// IEEE-754 `+ * /` on f64 never fail and are deterministic functions of their operands (vstd leaves both open)
#[verifier::external_body]
pub broadcast proof fn axiom_f64_ops(a: f64, b: f64)
    ensures
        #![trigger a.div_req(b)] #![trigger a.mul_req(b)] #![trigger a.add_req(b)]
        a.div_req(b), a.mul_req(b), a.add_req(b),
{}
#[verifier::external_body]
pub proof fn axiom_f64_obeys()
    ensures <f64 as DivSpec<f64>>::obeys_div_spec(), <f64 as MulSpec<f64>>::obeys_mul_spec(), <f64 as AddSpec<f64>>::obeys_add_spec(),
{}

/// precision / recall: tp / max(tp + other, 1)
pub open spec fn ratio_spec(tp: int, other: int) -> f64 { f_of(tp).div_spec(f_of(if tp + other >= 1 { tp + other } else { 1 })) }
/// F-beta = (1 + b^2) * P * R / (b^2 * P + R)   (the defining formula; b^2 weights precision in the denominator)
pub open spec fn fbeta_spec(p: f64, r: f64, b2: f64) -> f64 {
    (1.0f64.add_spec(b2)).mul_spec(p).mul_spec(r).div_spec(b2.mul_spec(p).add_spec(r))
}
pub open spec fn f1_ok(r: F1PrecRec, tp: int, fp: int, fn_: int, beta: f64) -> bool {
    &&& r.1 == ratio_spec(tp, fp)
    &&& r.2 == ratio_spec(tp, fn_)
    &&& (r.0 == fbeta_spec(r.1, r.2, powi_spec(beta, 2)) || r.0 == 0.0f64)
}

//@unit src/metrics.rs fn _f1
//@rule R9_cast
fn _f1(tp: usize, fp: usize, fn_: usize, beta: f64) -> (r: F1PrecRec)
    requires tp + fp <= usize::MAX, tp + fn_ <= usize::MAX,     // domain: the counts add up without overflow
    ensures f1_ok(r, tp as int, fp as int, fn_ as int, beta),
{
    broadcast use axiom_f64_ops;
    proof { axiom_f64_obeys(); }
    let precision = vt_f64(tp) / vt_f64((tp + fp).max(1));
    let recall = vt_f64(tp) / vt_f64((tp + fn_).max(1));
    let f1 = if precision + recall > 0.0 {
        let beta_sq = vt_powi(beta, 2);
        ((1.0 + beta_sq) * precision * recall) / (beta_sq * precision + recall)
    } else {
        0.0
    };
    (f1, precision, recall)
}
//@end

//@unit src/metrics.rs fn binary_f1
//@rule R4
pub fn binary_f1(predictions: &[bool], targets: &[bool], beta: f64) -> (res: VtResult<F1PrecRec>)
    ensures
        // a length mismatch is an error, not a panic
        res.is_err() <==> predictions.len() != targets.len(),
        // otherwise the F-beta of (true positives, false positives, false negatives)
        res.is_ok() ==> f1_ok(res.unwrap(),
            count_where(predictions@, targets@, true, true) as int,
            count_where(predictions@, targets@, true, false) as int,
            count_where(predictions@, targets@, false, true) as int, beta),
{
    if predictions.len() != targets.len() {
        return Err(vt_anyhow());
    }
    let (tp, fp, fn_) = _count_tp_fp_fn(predictions, targets);
    Ok(_f1(tp, fp, fn_, beta))
}
//@end

// ---------------------------------------------------------------- micro averaging
//@unit src/metrics.rs enum F1Info
//@rule derive_only(Debug)
#[derive(Debug)]
pub enum F1Info {
    Empty,
    WhitespaceCorrectionInfo(
        (
            WhitespaceCorrections,
            WhitespaceCorrections,
            WhitespaceCorrections,
        ),
    ),
    SpellingCorrectionInfo((Vec<usize>, Vec<usize>, Vec<usize>)),
}
//@end
#[derive(Debug)]
pub enum Operation { Keep, Insert, Delete }     // whitespace::Operation (only carried inside F1Info here)
//@unit src/metrics.rs type WhitespaceCorrections
pub type WhitespaceCorrections = Vec<(usize, Operation)>;
//@end
//@unit src/metrics.rs struct TpFpFn
pub struct TpFpFn {
    values: Vec<(bool, usize, usize, usize, F1Info)>,
}
//@end
pub open spec fn sum_field(v: Seq<(bool, usize, usize, usize, F1Info)>, k: int, which: int) -> int
    decreases k
{
    if k <= 0 || k > v.len() { 0 } else {
        sum_field(v, k - 1, which) + (if which == 0 { v[k - 1].1 } else if which == 1 { v[k - 1].2 } else { v[k - 1].3 }) as int
    }
}
impl TpFpFn {
    pub closed spec fn vals(&self) -> Seq<(bool, usize, usize, usize, F1Info)> { self.values@ }
//@unit src/metrics.rs fn micro_f1
//@rule R20((usize, usize, usize))
    fn micro_f1(self, beta: f64) -> (r: (F1PrecRec, Vec<F1Info>))
        requires
            // domain: the summed counts fit usize
            sum_field(self.vals(), self.vals().len() as int, 0) + sum_field(self.vals(), self.vals().len() as int, 1) + sum_field(self.vals(), self.vals().len() as int, 2) <= usize::MAX,
        ensures
            // micro averaging: the F-beta of the SUMMED counts
            f1_ok(r.0, sum_field(self.vals(), self.vals().len() as int, 0), sum_field(self.vals(), self.vals().len() as int, 1),
                  sum_field(self.vals(), self.vals().len() as int, 2), beta),
            r.1.len() == self.vals().len(),
    {
        let mut infos = Vec::with_capacity(self.values.len());
        let ghost vs = self.values@;
        let ghost n = vs.len() as int;
        let ghost mut done: int = 0;
        let mut vt_acc: (usize, usize, usize) = (0, 0, 0);
        proof { lemma_sum_nonneg(vs, n, 0); lemma_sum_nonneg(vs, n, 1); lemma_sum_nonneg(vs, n, 2); }
        for (_, tp, fp, fn_, info) in it: self.values
            invariant
                done == it.index@, 0 <= done <= n, it.seq() == vs, n == vs.len(),
                sum_field(vs, n, 0) + sum_field(vs, n, 1) + sum_field(vs, n, 2) <= usize::MAX,
                vt_acc.0 == sum_field(vs, done, 0), vt_acc.1 == sum_field(vs, done, 1), vt_acc.2 == sum_field(vs, done, 2),
                infos.len() == done,
        {
            proof {
                lemma_sum_mono(vs, done + 1, n, 0); lemma_sum_mono(vs, done + 1, n, 1); lemma_sum_mono(vs, done + 1, n, 2);
                lemma_sum_nonneg(vs, done + 1, 0); lemma_sum_nonneg(vs, done + 1, 1); lemma_sum_nonneg(vs, done + 1, 2);
            }
            let (tps, fps, fns) = vt_acc;
            infos.push(info);
            vt_acc = (tps + tp, fps + fp, fns + fn_);
            proof { done = done + 1; }
        }
        let (tps, fps, fns) = vt_acc;
        (_f1(tps, fps, fns, beta), infos)
    }
//@end
}
proof fn lemma_sum_mono(v: Seq<(bool, usize, usize, usize, F1Info)>, a: int, b: int, which: int)
    requires 0 <= a <= b <= v.len(),
    ensures sum_field(v, a, which) <= sum_field(v, b, which),
    decreases b - a
{
    if a < b { lemma_sum_mono(v, a, b - 1, which); }
}
proof fn lemma_sum_nonneg(v: Seq<(bool, usize, usize, usize, F1Info)>, k: int, which: int)
    requires 0 <= k <= v.len(),
    ensures sum_field(v, k, which) >= 0,
    decreases k
{
    if k > 0 { lemma_sum_nonneg(v, k - 1, which); }
}
} // verus!
fn main() {}
