// C13 -- correction metrics (partial): binary_f1 = F-beta of the four-way count, length mismatch is an error;
//        the value-level contract of metrics::_f1 (finite, in [0,1], calibrated) is the Kani function contract
//        kani/metrics_f1 on the same extracted text.
use vstd::prelude::*;
use vstd::std_specs::ops::*;
verus! {
#[derive(Debug)]
pub struct AnyhowError;
#[verifier::external_body]
fn vt_anyhow() -> AnyhowError { AnyhowError }
pub type VtResult<T> = Result<T, AnyhowError>;

//@unit src/metrics.rs type F1PrecRec
pub type F1PrecRec = (f64, f64, f64);
//@end

/// defining counts of binary F1: predictions p against targets t
pub open spec fn count_where(p: Seq<bool>, t: Seq<bool>, pv: bool, tv: bool) -> nat
    decreases p.len()
{
    if p.len() == 0 || t.len() != p.len() { 0 }
    else { count_where(p.drop_last(), t.drop_last(), pv, tv) + if p.last() == pv && t.last() == tv { 1nat } else { 0nat } }
}
/// metrics::_count_tp_fp_fn is one `zip().fold()` with a tuple-pattern closure (not expressible in Verus): assumed
#[verifier::external_body]
fn _count_tp_fp_fn(a: &[bool], b: &[bool]) -> (r: (usize, usize, usize))
    requires a.len() == b.len(),
    ensures r.0 == count_where(a@, b@, true, true), r.1 == count_where(a@, b@, true, false), r.2 == count_where(a@, b@, false, true),
        r.0 + r.1 + r.2 <= a.len(),   // the three counts are over disjoint positions
{ unimplemented!() }

// ---------------------------------------------------------------- F-beta formula (floats as uninterpreted total functions)
/// `x as f64`, `x.powi(n)` (R9_cast): values are uninterpreted here
pub uninterp spec fn f_of(x: int) -> f64;
#[verifier::external_body]
fn vt_f64(x: usize) -> (r: f64) ensures r == f_of(x as int) { x as f64 }
pub uninterp spec fn powi_spec(x: f64, n: int) -> f64;
#[verifier::external_body]
fn vt_powi(x: f64, n: i32) -> (r: f64) ensures r == powi_spec(x, n as int) { x.powi(n) }
/// IEEE-754 `+ * /` on f64 never fail and are deterministic functions of their operands (vstd leaves both open)
#[verifier::external_body]
pub broadcast proof fn axiom_f64_ops(a: f64, b: f64)
    ensures
        #![trigger a.div_req(b)] #![trigger a.mul_req(b)] #![trigger a.add_req(b)]
        a.div_req(b), a.mul_req(b), a.add_req(b),
{}
#[verifier::external_body]
pub proof fn axiom_f64_obeys()
    ensures <f64 as DivSpec<f64>>::obeys_div_spec(), <f64 as MulSpec<f64>>::obeys_mul_spec(), <f64 as AddSpec<f64>>::obeys_add_spec(),
{}

/// precision / recall: tp / max(tp + other, 1)
pub open spec fn ratio_spec(tp: int, other: int) -> f64 { f_of(tp).div_spec(f_of(if tp + other >= 1 { tp + other } else { 1 })) }
/// F-beta = (1 + b^2) * P * R / (b^2 * P + R)   (the defining formula; b^2 weights precision in the denominator)
pub open spec fn fbeta_spec(p: f64, r: f64, b2: f64) -> f64 {
    (1.0f64.add_spec(b2)).mul_spec(p).mul_spec(r).div_spec(b2.mul_spec(p).add_spec(r))
}
pub open spec fn f1_ok(r: F1PrecRec, tp: int, fp: int, fn_: int, beta: f64) -> bool {
    &&& r.1 == ratio_spec(tp, fp)
    &&& r.2 == ratio_spec(tp, fn_)
    &&& (r.0 == fbeta_spec(r.1, r.2, powi_spec(beta, 2)) || r.0 == 0.0f64)
}

//@unit src/metrics.rs fn _f1
//@rule R9_cast
fn _f1(tp: usize, fp: usize, fn_: usize, beta: f64) -> (r: F1PrecRec)
    requires tp + fp <= usize::MAX, tp + fn_ <= usize::MAX,     // domain: the counts add up without overflow
    ensures f1_ok(r, tp as int, fp as int, fn_ as int, beta),
{
    broadcast use axiom_f64_ops;
    proof { axiom_f64_obeys(); }
    let precision = vt_f64(tp) / vt_f64((tp + fp).max(1));
    let recall = vt_f64(tp) / vt_f64((tp + fn_).max(1));
    let f1 = if precision + recall > 0.0 {
        let beta_sq = vt_powi(beta, 2);
        ((1.0 + beta_sq) * precision * recall) / (beta_sq * precision + recall)
    } else {
        0.0
    };
    (f1, precision, recall)
}
//@end

//@unit src/metrics.rs fn binary_f1
//@rule R4
pub fn binary_f1(predictions: &[bool], targets: &[bool], beta: f64) -> (res: VtResult<F1PrecRec>)
    ensures
        // a length mismatch is an error, not a panic
        res.is_err() <==> predictions.len() != targets.len(),
        // otherwise the F-beta of (true positives, false positives, false negatives)
        res.is_ok() ==> f1_ok(res.unwrap(),
            count_where(predictions@, targets@, true, true) as int,
            count_where(predictions@, targets@, true, false) as int,
            count_where(predictions@, targets@, false, true) as int, beta),
{
    if predictions.len() != targets.len() {
        return Err(vt_anyhow());
    }
    let (tp, fp, fn_) = _count_tp_fp_fn(predictions, targets);
    Ok(_f1(tp, fp, fn_, beta))
}
//@end
} // verus!
fn main() {}
