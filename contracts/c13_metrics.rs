// C13 -- correction metrics (partial): binary_f1 = F-beta of the four-way count, length mismatch is an error;
//        the value-level contract of metrics::_f1 (finite, in [0,1], calibrated) is the Kani function contract
//        kani/metrics_f1 on the same extracted text.
use vstd::prelude::*;
verus! {
#[derive(Debug)]
pub struct AnyhowError;
#[verifier::external_body]
fn vt_anyhow() -> AnyhowError { AnyhowError }
pub type VtResult<T> = Result<T, AnyhowError>;

//@unit src/metrics.rs type F1PrecRec
pub type F1PrecRec = (f64, f64, f64);
//@end

/// defining counts of binary F1: predictions p against targets t
pub open spec fn count_where(p: Seq<bool>, t: Seq<bool>, pv: bool, tv: bool) -> nat
    decreases p.len()
{
    if p.len() == 0 || t.len() != p.len() { 0 }
    else { count_where(p.drop_last(), t.drop_last(), pv, tv) + if p.last() == pv && t.last() == tv { 1nat } else { 0nat } }
}
/// metrics::_count_tp_fp_fn is one `zip().fold()` with a tuple-pattern closure (not expressible in Verus): assumed
#[verifier::external_body]
fn _count_tp_fp_fn(a: &[bool], b: &[bool]) -> (r: (usize, usize, usize))
    requires a.len() == b.len(),
    ensures r.0 == count_where(a@, b@, true, true), r.1 == count_where(a@, b@, true, false), r.2 == count_where(a@, b@, false, true),
{ unimplemented!() }

/// the value computed by metrics::_f1 (IEEE arithmetic, uninterpreted here; see the Kani contract)
pub uninterp spec fn f1_spec(tp: usize, fp: usize, fn_: usize, beta: f64) -> F1PrecRec;
#[verifier::external_body]
fn _f1(tp: usize, fp: usize, fn_: usize, beta: f64) -> (r: F1PrecRec)
    ensures r == f1_spec(tp, fp, fn_, beta),
{ unimplemented!() }

//@unit src/metrics.rs fn binary_f1
//@rule R4
pub fn binary_f1(predictions: &[bool], targets: &[bool], beta: f64) -> (res: VtResult<F1PrecRec>)
    ensures
        // a length mismatch is an error, not a panic
        res.is_err() <==> predictions.len() != targets.len(),
        // otherwise the F-beta of (true positives, false positives, false negatives)
        res.is_ok() ==> res.unwrap() == f1_spec(
            count_where(predictions@, targets@, true, true) as usize,
            count_where(predictions@, targets@, true, false) as usize,
            count_where(predictions@, targets@, false, true) as usize, beta),
{
    if predictions.len() != targets.len() {
        return Err(vt_anyhow());
    }
    let (tp, fp, fn_) = _count_tp_fp_fn(predictions, targets);
    Ok(_f1(tp, fp, fn_, beta))
}
//@end
} // verus!
fn main() {}
