// C01 -- byte tokenizer: ids = prefix ++ UTF-8 bytes (special occurrences -> their id) ++ suffix; decoding is the inverse
use vstd::prelude::*;
use vstd::string::StringSliceAdditionalSpecFns;
use vstd::std_specs::hash::*;
use std::collections::HashMap;
use std::borrow::Borrow;
use std::hash::Hash;
verus! {
//@include specs/std_extra.rs
//@include specs/err.rs
//@include specs/tok.rs

// ---------------------------------------------------------------- trusted prelude (this file)
impl From<core::num::TryFromIntError> for AnyhowError {
    #[verifier::external_body]
    fn from(e: core::num::TryFromIntError) -> AnyhowError { AnyhowError }
}
#[verifier::external_type_specification]
#[verifier::external_body]
pub struct ExFromUtf8Error(std::string::FromUtf8Error);
impl From<std::string::FromUtf8Error> for AnyhowError {
    #[verifier::external_body]
    fn from(e: std::string::FromUtf8Error) -> AnyhowError { AnyhowError }
}
/// well-formed UTF-8
pub uninterp spec fn is_utf8(b: Seq<u8>) -> bool;
pub assume_specification[ String::from_utf8 ](v: Vec<u8>) -> (r: Result<String, std::string::FromUtf8Error>)
    ensures r.is_ok() <==> is_utf8(v@), r.is_ok() ==> string_bytes(r.unwrap()) == v@;
/// Vec<u8>::extend(&[u8])  (R6: `V.extend(E.as_bytes())`)
#[verifier::external_body]
fn vt_extend_slice(v: &mut Vec<u8>, s: &[u8])
    ensures final(v)@ == old(v)@ + s@,
{ v.extend(s) }

/// unicode::CharString as far as process_input uses it: character byte lengths (their sum is the byte length)
pub struct CharString<'a> { pub str: &'a str, g: bool }
pub type CS<'a> = CharString<'a>;
pub struct Character<'s> { pub str: &'s str }
pub uninterp spec fn chars_of(s: Seq<char>, g: bool) -> Seq<Seq<char>>;
impl<'s> CharString<'s> {
    pub closed spec fn view(&self) -> Seq<Seq<char>> { chars_of(self.str@, self.g) }
    #[verifier::external_body]
    pub fn new(str: &'s str, use_graphemes: bool) -> (r: CharString<'s>)
        ensures r.view() == chars_of(str@, use_graphemes),
            // the characters partition the string: their UTF-8 lengths add up to its byte length
            char_bytes(r.view(), r.view().len() as int) == chars_utf8(str@).len(),
            forall|i: int| 0 <= i < r.view().len() ==> chars_utf8(#[trigger] r.view()[i]).len() <= usize::MAX,
    { unimplemented!() }
    #[verifier::external_body]
    pub fn vt_chars_vec(&self) -> (r: Vec<Character<'s>>)
        ensures r.len() == self.view().len(), forall|k: int| 0 <= k < r.len() ==> (#[trigger] r[k]).str@ == self.view()[k],
    { unimplemented!() }
    #[verifier::external_body]
    pub fn get_char_byte_lengths(&self) -> (r: Vec<usize>)
        ensures r.len() == self.view().len(), forall|k: int| 0 <= k < r.len() ==> #[trigger] r[k] == chars_utf8(self.view()[k]).len(),
    { unimplemented!() }
}

//@unit src/tokenization.rs enum TokenInput
enum TokenInput<'a> {
    Regular(&'a str),
    Special(&'a str),
}
//@end

//@unit src/tokenization.rs enum TokenGroup
//@rule derive_only(Debug)
#[derive(Debug)]
pub enum TokenGroup {
    Empty(usize),
    Full(usize),
    Nested(Vec<TokenGroup>),
}
//@end
//@unit src/tokenization.rs enum GroupAggregation
//@rule derive_only(Debug ;; Clone ;; Copy)
#[derive(Clone, Copy, Debug)]
pub enum GroupAggregation {
    Mean,
    Sum,
}
//@end
//@unit src/tokenization.rs type Grouping
pub type Grouping = (Vec<TokenGroup>, GroupAggregation);
//@end
//@unit src/tokenization.rs enum ByteGroups
//@rule derive_only(Debug ;; Clone)
#[derive(Clone, Debug)]
pub enum ByteGroups {
    Bytes,
    CodePoints,
}
//@end
//@unit src/tokenization.rs struct ByteTokenizerConfig
//@rule derive_only(Debug)
#[derive(Debug)]
pub struct ByteTokenizerConfig {
    pub use_graphemes: bool,
    pub pad_to_multiple_of: Option<usize>,
    pub groups: ByteGroups,
    pub aggregation: GroupAggregation,
}
//@end
/// stand-in for tokenization::TokenizationInfo without its recursive `Info(HashMap<String, TokenizationInfo>)` variant
pub enum TokenizationInfo {
    Empty,
    TokenGroups(HashMap<String, Grouping>),
}
//@unit src/tokenization.rs struct Tokenization
//@rule derive_drop
pub struct Tokenization {
    pub token_ids: Vec<u32>,
    pub info: TokenizationInfo,
}
//@end
impl Tokenization {
//@unit src/tokenization.rs fn new impl=^impl\sTokenization$
    pub fn new(token_ids: Vec<u32>, info: TokenizationInfo) -> (r: Self)
        ensures r.token_ids == token_ids, r.info == info,
    {
        Tokenization { token_ids, info }
    }
//@end
}

//@unit src/tokenization.rs type VocabFreeTokenizer
pub type VocabFreeTokenizer<Config> = BaseTokenizer<Config>;
//@end
//@unit src/tokenization.rs type ByteTokenizer
pub type ByteTokenizer = VocabFreeTokenizer<ByteTokenizerConfig>;
//@end

// ---------------------------------------------------------------- token groups (C17): nested lengths
/// number of tokens a (possibly nested) group covers -- the meaning of `TokenGroup::len`
pub open spec fn glen(g: TokenGroup) -> nat
    decreases g
{
    match g {
        TokenGroup::Empty(n) => n as nat,
        TokenGroup::Full(n) => n as nat,
        TokenGroup::Nested(v) => glens(v@, v@.len() as int),
    }
}
pub open spec fn glens(v: Seq<TokenGroup>, k: int) -> nat
    decreases v, k
{
    if k <= 0 || k > v.len() { 0 } else { glens(v, k - 1) + glen(v[k - 1]) }
}
pub open spec fn gtotal(v: Seq<TokenGroup>) -> nat { glens(v, v.len() as int) }
proof fn lemma_glens_prefix(a: Seq<TokenGroup>, b: Seq<TokenGroup>, k: int)
    requires 0 <= k <= a.len(), k <= b.len(), forall|i: int| 0 <= i < k ==> a[i] == b[i],
    ensures glens(a, k) == glens(b, k),
    decreases k
{
    if k > 0 { lemma_glens_prefix(a, b, k - 1); }
}
proof fn lemma_gtotal_push(v: Seq<TokenGroup>, x: TokenGroup)
    ensures gtotal(v.push(x)) == gtotal(v) + glen(x),
{
    lemma_glens_prefix(v.push(x), v, v.len() as int);
}
proof fn lemma_gtotal_append(a: Seq<TokenGroup>, b: Seq<TokenGroup>, k: int)
    requires 0 <= k <= b.len(),
    ensures glens(a + b, a.len() + k) == gtotal(a) + glens(b, k),
    decreases k
{
    if k == 0 {
        lemma_glens_prefix(a + b, a, a.len() as int);
    } else {
        lemma_gtotal_append(a, b, k - 1);
        assert((a + b)[a.len() + k - 1] == b[k - 1]);
    }
}
proof fn lemma_gtotal_ones(v: Seq<TokenGroup>, k: int)
    requires 0 <= k <= v.len(), forall|i: int| 0 <= i < v.len() ==> #[trigger] v[i] == TokenGroup::Full(1),
    ensures glens(v, k) == k,
    decreases k
{
    if k > 0 {
        lemma_gtotal_ones(v, k - 1);
        assert(v[k - 1] == TokenGroup::Full(1));
        assert(glen(v[k - 1]) == 1);
        assert(glens(v, k) == glens(v, k - 1) + glen(v[k - 1]));
    }
}
/// sum of the UTF-8 byte lengths of the first k characters
pub open spec fn char_bytes(f: Seq<Seq<char>>, k: int) -> nat
    decreases k
{
    if k <= 0 || k > f.len() { 0 } else { char_bytes(f, k - 1) + chars_utf8(f[k - 1]).len() }
}
proof fn lemma_full_lens(g: Seq<TokenGroup>, base: int, f: Seq<Seq<char>>, k: int)
    requires 0 <= k <= f.len(), 0 <= base, base + f.len() <= g.len(),
        forall|i: int| 0 <= i < f.len() ==> #[trigger] g[base + i] == TokenGroup::Full(chars_utf8(f[i]).len() as usize),
        forall|i: int| 0 <= i < f.len() ==> chars_utf8(#[trigger] f[i]).len() <= usize::MAX,
    ensures glens(g, base + k) == glens(g, base) + char_bytes(f, k),
    decreases k
{
    if k > 0 {
        lemma_full_lens(g, base, f, k - 1);
        assert(g[base + (k - 1)] == TokenGroup::Full(chars_utf8(f[k - 1]).len() as usize));
        assert(chars_utf8(f[k - 1]).len() <= usize::MAX);
        assert(glen(g[base + k - 1]) == chars_utf8(f[k - 1]).len());
        assert(glens(g, base + k) == glens(g, base + k - 1) + glen(g[base + k - 1]));
        assert(char_bytes(f, k) == char_bytes(f, k - 1) + chars_utf8(f[k - 1]).len());
    }
}

// R6 idioms of process_input / add_prefix_and_suffix (std iterator adapters and macros)
#[verifier::external_body]
fn vt_full_ones(n: usize) -> (r: Vec<TokenGroup>)
    ensures r.len() == n, forall|k: int| 0 <= k < n ==> #[trigger] r[k] == TokenGroup::Full(1),
{ unimplemented!() }
#[verifier::external_body]
fn vt_extend_bytes(t: &mut Vec<u32>, b: &[u8])
    ensures final(t)@ == old(t)@ + bytes_as_ids(b@),
{ unimplemented!() }
#[verifier::external_body]
fn vt_extend_full(g: &mut Vec<TokenGroup>, lens: Vec<usize>)
    ensures final(g).len() == old(g).len() + lens.len(),
        forall|k: int| 0 <= k < old(g).len() ==> final(g)[k] == old(g)[k],
        forall|k: int| 0 <= k < lens.len() ==> #[trigger] final(g)[old(g).len() + k] == TokenGroup::Full(lens[k]),
{ unimplemented!() }
#[verifier::external_body]
fn vt_code_point_groups(c: &Character) -> (r: Vec<TokenGroup>)
    // one Full(len_utf8) group per code point of the character: together they cover the character's bytes
    ensures gtotal(r@) == chars_utf8(c.str@).len(),
{ unimplemented!() }
#[verifier::external_body]
fn vt_single_map(k: String, v: Grouping) -> (r: HashMap<String, Grouping>)
    ensures r@ == Map::<String, Grouping>::empty().insert(k, v),
{ unimplemented!() }
/// A.iter().cloned().chain(B).chain(C.iter().cloned()).collect()
#[verifier::external_body]
fn vt_chain3(a: &[u32], b: Vec<u32>, c: &[u32]) -> (r: Vec<u32>)
    ensures r@ == a@ + b@ + c@,
{ unimplemented!() }

// ---------------------------------------------------------------- specification
pub open spec fn bytes_as_ids(b: Seq<u8>) -> Seq<u32> { b.map(|k: int, x: u8| x as u32) }

/// one piece of the input after special-token splitting
pub enum Part { Regular(Seq<char>), Special(Seq<char>) }
spec fn part_of(t: TokenInput) -> Part {
    match t { TokenInput::Regular(s) => Part::Regular(s@), TokenInput::Special(s) => Part::Special(s@) }
}
spec fn parts_of(v: Seq<TokenInput>) -> Seq<Part> { v.map(|k: int, t: TokenInput| part_of(t)) }
pub open spec fn parts_text(p: Seq<Part>) -> Seq<char>
    decreases p.len()
{
    if p.len() == 0 { Seq::empty() } else { parts_text(p.drop_last()) + (match p.last() { Part::Regular(s) => s, Part::Special(s) => s }) }
}

/// one group per character of a regular part, one per special token
pub open spec fn ngroups(p: Seq<Part>, k: int, g: bool) -> nat
    decreases k
{
    if k <= 0 || k > p.len() { 0 } else {
        ngroups(p, k - 1, g) + (match p[k - 1] { Part::Regular(x) => chars_of(x, g).len(), Part::Special(_) => 1 })
    }
}

/// byte-offset substrings at the level of the character view (str slicing): assumed laws of `&s[a..b]`
pub uninterp spec fn blen(s: Seq<char>) -> int;            // UTF-8 byte length
pub uninterp spec fn is_boundary(s: Seq<char>, i: int) -> bool;
pub uninterp spec fn sub_chars(s: Seq<char>, a: int, b: int) -> Seq<char>;
#[verifier::external_body]
proof fn axiom_sub_chars(s: Seq<char>, a: int, b: int, c: int)
    requires 0 <= a <= b <= c <= blen(s),
    ensures sub_chars(s, a, b) + sub_chars(s, b, c) == sub_chars(s, a, c), sub_chars(s, a, a) == Seq::<char>::empty(), is_boundary(s, 0), is_boundary(s, blen(s)), blen(s) >= 0,
{}
#[verifier::external_body]
proof fn axiom_sub_chars_full(s: Seq<char>)
    ensures sub_chars(s, 0, blen(s)) == s, blen(s) >= 0,
{}
/// `&s[a..b]`: panics unless a <= b <= len on character boundaries
#[verifier::external_body]
fn vt_str_slice<'a>(s: &'a str, a: usize, b: usize) -> (r: &'a str)
    requires a <= b <= blen(s@), is_boundary(s@, a as int), is_boundary(s@, b as int),
    ensures r@ == sub_chars(s@, a as int, b as int),
{ &s[a..b] }
#[verifier::external_body]
fn vt_str_len(s: &str) -> (r: usize) ensures r == blen(s@) { s.len() }

/// regex::Regex::find_iter / regex::Match: external.  Assumed: the matches are non-empty, on character boundaries, in
/// order and non-overlapping, and every matched text belongs to the pattern's language.
pub uninterp spec fn regex_lang(r: Regex) -> Set<Seq<char>>;
#[verifier::external_body]
pub struct Match<'h> { _p: core::marker::PhantomData<&'h str> }
pub uninterp spec fn match_span<'h>(m: Match<'h>) -> (int, int);
impl<'h> Match<'h> {
    pub open spec fn start_spec(&self) -> int { match_span(*self).0 }
    pub open spec fn end_spec(&self) -> int { match_span(*self).1 }
    #[verifier::external_body]
    pub fn start(&self) -> (r: usize) ensures r == self.start_spec() { unimplemented!() }
    #[verifier::external_body]
    pub fn end(&self) -> (r: usize) ensures r == self.end_spec() { unimplemented!() }
}
pub open spec fn matches_ok(r: Regex, s: Seq<char>, ms: Seq<Match>) -> bool {
    &&& forall|i: int| 0 <= i < ms.len() ==> 0 <= (#[trigger] ms[i]).start_spec() < ms[i].end_spec() <= blen(s)
            && is_boundary(s, ms[i].start_spec()) && is_boundary(s, ms[i].end_spec())
            && regex_lang(r).contains(sub_chars(s, ms[i].start_spec(), ms[i].end_spec()))
    &&& forall|i: int, j: int| 0 <= i < j < ms.len() ==> (#[trigger] ms[i]).end_spec() <= (#[trigger] ms[j]).start_spec()
}
impl Regex {
    /// the real `find_iter` returns a lazy iterator; its items in order are modelled as a vector
    #[verifier::external_body]
    pub fn find_iter<'r, 'h>(&'r self, s: &'h str) -> (ms: Vec<Match<'h>>)
        ensures matches_ok(*self, s@, ms@),
    { unimplemented!() }
}

impl<Config, State> BaseTokenizer<Config, State> {
    pub closed spec fn special(&self) -> Vocab<String> { self.special_vocab }
    pub closed spec fn prefix(&self) -> Seq<u32> { self.prefix_token_ids@ }
    pub closed spec fn suffix(&self) -> Seq<u32> { self.suffix_token_ids@ }
    pub closed spec fn has_pattern(&self) -> bool { self.special_token_pattern.is_some() }

    /// bytes a token-id sequence decodes to (special spellings only when they are kept)
    pub open spec fn dec(&self, ids: Seq<u32>, keep: bool) -> Seq<u8>
        decreases ids.len()
    {
        if ids.len() == 0 { Seq::empty() } else {
            self.dec(ids.drop_last(), keep) + (
                if ids.last() < 256 { seq![ids.last() as u8] }
                else if keep && self.special().rev().contains_key(ids.last()) { string_bytes(self.special().rev()[ids.last()]) }
                else { Seq::empty() })
        }
    }

    /// id of a special-token spelling
    pub open spec fn special_key(&self, spelling: Seq<char>) -> String {
        choose|key: String| key@ == spelling && #[trigger] self.special().fwd().contains_key(key)
    }
    pub open spec fn special_id(&self, spelling: Seq<char>) -> Option<u32> {
        if exists|key: String| key@ == spelling && #[trigger] self.special().fwd().contains_key(key) {
            Some(self.special().fwd()[self.special_key(spelling)])
        } else { None }
    }
    /// the id stream of the property statement for a split input
    pub open spec fn ids_of(&self, p: Seq<Part>) -> Seq<u32>
        decreases p.len()
    {
        if p.len() == 0 { Seq::empty() } else {
            self.ids_of(p.drop_last()) + (match p.last() {
                Part::Regular(s) => bytes_as_ids(chars_utf8(s)),
                Part::Special(s) => seq![self.special_id(s).unwrap()],
            })
        }
    }
    /// Assumed contract of `split_input` (regex::Regex::find_iter over the escaped special-token spellings):
    /// the parts concatenate to the input, every Special part is a special-token spelling, and without parsing
    /// (or without special tokens) the input is one Regular part.
    pub open spec fn split_ok(&self, s: Seq<char>, ignore: bool, p: Seq<Part>) -> bool {
        &&& parts_text(p) == s
        &&& forall|k: int| 0 <= k < p.len() ==> (match #[trigger] p[k] { Part::Special(x) => self.special_id(x).is_some(), Part::Regular(_) => true })
        &&& (ignore || !self.has_pattern() ==> p == seq![Part::Regular(s)])
    }

    /// ASSUMED (established by new_base_tokenizer, which is not a unit; explored by the bounded stand-in of C01): the
    /// language of the special-token pattern is the set of special-token spellings
    #[verifier::external_body]
    proof fn axiom_pattern_lang(&self)
        ensures self.special_token_pattern.is_some() ==>
            forall|x: Seq<char>| #[trigger] regex_lang(self.special_token_pattern.unwrap()).contains(x) ==> self.special_id(x).is_some(),
    {}

//@unit src/tokenization.rs fn split_input
//@rule R16(pattern.find_iter(s) ;; ms)
//@rule R11(s)
//@rule R11_open(s)
//@rule R11_str(s)
    #[verifier::loop_isolation(false)]
    fn split_input<'a>(&self, s: &'a str, ignore_special_tokens: bool) -> (r: Vec<TokenInput<'a>>)
        ensures self.split_ok(s@, ignore_special_tokens, parts_of(r@)),
    {
        if ignore_special_tokens || self.special_token_pattern.is_none() {
            proof {
                let p = seq![Part::Regular(s@)];
                assert(p.drop_last() =~= Seq::<Part>::empty());
                assert(parts_text(p.drop_last()) =~= Seq::<char>::empty());
                assert(p.last() == Part::Regular(s@));
                assert(parts_text(p) =~= s@);
                assert forall|v: Seq<TokenInput>| v.len() == 1 && v[0] == TokenInput::Regular(s) implies #[trigger] parts_of(v) == p by {
                    assert(parts_of(v) =~= p);
                }
            }
            return vec![TokenInput::Regular(s)];
        }
        let pattern = self.special_token_pattern.as_ref().expect("cannot be none");
        let mut splits = vec![];
        let mut last = 0;
        let ghost mut parts: Seq<Part> = Seq::empty();
        let ghost n = blen(s@);
        proof { self.axiom_pattern_lang(); axiom_sub_chars_full(s@); axiom_sub_chars(s@, 0, 0, 0); assert(parts_text(parts) =~= Seq::<char>::empty()); }
        let ms = pattern.find_iter(s);
        for m in it: ms
            invariant
                n == blen(s@), it.seq() == ms@, matches_ok(*pattern, s@, ms@),
                self.special_token_pattern.is_some(), *pattern == self.special_token_pattern.unwrap(),
                forall|x: Seq<char>| #[trigger] regex_lang(*pattern).contains(x) ==> self.special_id(x).is_some(),
                0 <= last <= n, is_boundary(s@, last as int),
                it.index@ > 0 ==> last == ms@[it.index@ - 1].end_spec(),
                it.index@ == 0 ==> last == 0,
                parts == parts_of(splits@),
                parts_text(parts) == sub_chars(s@, 0, last as int),
                forall|k: int| 0 <= k < parts.len() ==> (match #[trigger] parts[k] { Part::Special(x) => self.special_id(x).is_some(), Part::Regular(_) => true }),
        {
            let ghost i = it.index@ as int;
            proof {
                assert(m == ms@[i]);
                if i > 0 { assert(ms@[i - 1].end_spec() <= ms@[i].start_spec()); }
            }
            if m.start() > last {
                let ghost p0 = parts;
                splits.push(TokenInput::Regular(vt_str_slice(s, last, m.start())));
                proof {
                    parts = p0.push(Part::Regular(sub_chars(s@, last as int, m.start_spec())));
                    assert(parts.drop_last() =~= p0);
                    assert(parts.last() == Part::Regular(sub_chars(s@, last as int, m.start_spec())));
                    assert(parts_text(parts) == parts_text(p0) + sub_chars(s@, last as int, m.start_spec()));
                    axiom_sub_chars(s@, 0, last as int, m.start_spec());
                    assert(parts_text(parts) =~= sub_chars(s@, 0, m.start_spec()));
                    assert(parts =~= parts_of(splits@));
                }
            }
            let ghost p1 = parts;
            splits.push(TokenInput::Special(vt_str_slice(s, m.start(), m.end())));
            proof {
                parts = p1.push(Part::Special(sub_chars(s@, m.start_spec(), m.end_spec())));
                assert(parts.drop_last() =~= p1);
                assert(parts.last() == Part::Special(sub_chars(s@, m.start_spec(), m.end_spec())));
                axiom_sub_chars(s@, 0, m.start_spec(), m.end_spec());
                assert(last <= m.start_spec());
                assert(parts_text(p1) == sub_chars(s@, 0, m.start_spec()));
                assert(parts_text(parts) == parts_text(p1) + sub_chars(s@, m.start_spec(), m.end_spec()));
                assert(parts_text(parts) =~= sub_chars(s@, 0, m.end_spec()));
                assert(parts =~= parts_of(splits@));
            }
            last = m.end();
        }
        if last < vt_str_len(s) {
            let ghost p2 = parts;
            splits.push(TokenInput::Regular(vt_str_slice(s, last, vt_str_len(s))));
            proof {
                parts = p2.push(Part::Regular(sub_chars(s@, last as int, n)));
                assert(parts.drop_last() =~= p2);
                assert(parts.last() == Part::Regular(sub_chars(s@, last as int, n)));
                assert(parts_text(parts) == parts_text(p2) + sub_chars(s@, last as int, n));
                axiom_sub_chars(s@, 0, last as int, n);
                assert(parts =~= parts_of(splits@));
            }
        }
        proof { axiom_sub_chars_full(s@); }
        splits
    }
//@end

//@unit src/tokenization.rs fn prefix_token_ids impl=^impl<Config,State>BaseTokenize\sfor\sBaseTokenizer
    fn prefix_token_ids(&self) -> (r: &[u32])
        ensures r@ == self.prefix(),
    {
        &self.prefix_token_ids
    }
//@end
//@unit src/tokenization.rs fn suffix_token_ids impl=^impl<Config,State>BaseTokenize\sfor\sBaseTokenizer
    fn suffix_token_ids(&self) -> (r: &[u32])
        ensures r@ == self.suffix(),
    {
        &self.suffix_token_ids
    }
//@end
//@unit src/tokenization.rs fn num_prefix_tokens impl=^trait\sBaseTokenize$
    fn num_prefix_tokens(&self) -> (r: usize)
        ensures r == self.prefix().len(),
    {
        self.prefix_token_ids().len()
    }
//@end
//@unit src/tokenization.rs fn num_suffix_tokens impl=^trait\sBaseTokenize$
    fn num_suffix_tokens(&self) -> (r: usize)
        ensures r == self.suffix().len(),
    {
        self.suffix_token_ids().len()
    }
//@end

//@unit src/tokenization.rs fn add_prefix_and_suffix
//@rule R6_chain3
    fn add_prefix_and_suffix(&self, token_ids: Vec<u32>) -> (r: Vec<u32>)
        ensures r@ == self.prefix() + token_ids@ + self.suffix(),
    {
        vt_chain3(self.prefix_token_ids(), token_ids, self.suffix_token_ids())
    }
//@end
}

impl ByteTokenizer {
    pub closed spec fn graphemes(&self) -> bool { self.config.use_graphemes }
//@unit src/tokenization.rs fn process_input impl=^impl\sByteTokenizer$
//@rule R4
//@rule R6_byte_process
//@rule R15_for
//@rule R16(re:self\.split_input\([^()]*\) ;; vt_parts)
    #[verifier::loop_isolation(false)]
    fn process_input(
        &self,
        s: &str,
        ignore_special_tokens: bool,
    ) -> (res: VtResult<(Vec<u32>, TokenizationInfo)>)
        requires obeys_key_model::<String>(),
        ensures
            // exactly the UTF-8 bytes as ids 0..255, every special-token occurrence as its single special id
            res.is_ok() ==> exists|p: Seq<Part>| #[trigger] self.split_ok(s@, ignore_special_tokens, p) && res.unwrap().0@ == self.ids_of(p),
            // without special-token parsing: just the bytes, and never an error
            ignore_special_tokens ==> res.is_ok() && res.unwrap().0@ == bytes_as_ids(chars_utf8(s@)),
            // C17: the (nested) group lengths sum to prefix + ids + suffix
            res.is_ok() ==> (match res.unwrap().1 {
                TokenizationInfo::TokenGroups(m) => forall|k: String| #[trigger] m@.contains_key(k) ==>
                    gtotal(m@[k].0@) == self.prefix().len() + res.unwrap().0.len() + self.suffix().len(),
                _ => false,
            }),
    {
        let mut tokens = vec![];
        let group_name = match self.config.groups {
            ByteGroups::Bytes => "byte_groups",
            ByteGroups::CodePoints => "code_point_groups",
        }
        .to_string();

        // initialize groups with 1 for each prefix token
        let mut groups = vt_full_ones(self.num_prefix_tokens());
        proof { lemma_gtotal_ones(groups@, groups.len() as int); }

        let vt_parts = self.split_input(s, ignore_special_tokens);
        let ghost parts = vt_parts@.map(|k: int, t: TokenInput| part_of(t));
        let ghost mut done: int = 0;
        proof { assert(parts.subrange(0, 0) =~= Seq::<Part>::empty()); }
        for input in it: vt_parts
            invariant
                obeys_key_model::<String>(),
                parts == vt_parts@.map(|k: int, t: TokenInput| part_of(t)),
                self.split_ok(s@, ignore_special_tokens, parts),
                done == it.index@, 0 <= done <= parts.len(),
                tokens@ == self.ids_of(parts.subrange(0, done)),
                // group accounting: nested lengths cover prefix + ids so far; one group per character / special token
                gtotal(groups@) == self.prefix().len() + tokens.len(),
                groups.len() == self.prefix().len() + ngroups(parts, done, self.graphemes()),
        {
            proof {
                assert(part_of(input) == parts[done]);
                assert(parts.subrange(0, done + 1).drop_last() =~= parts.subrange(0, done));
                assert(parts.subrange(0, done + 1).last() == parts[done]);
            }
            match input {
                TokenInput::Special(token) => {
                    proof {
                        axiom_borrow_string_str(self.special_vocab.fwd(), token);
                        // without special-token parsing there is no Special part
                        if ignore_special_tokens { assert(parts[done] == Part::Regular(s@)); }
                    }
                    let token_id = self
                        .special_vocab
                        .token_to_id(token)
                        .ok_or_else(|| vt_anyhow())?;
                    proof {
                        let key = choose|key: String| key@ == token@ && #[trigger] self.special().fwd().contains_key(key) && self.special().fwd()[key] == token_id;
                        let key2 = self.special_key(token@);
                        axiom_string_ext(key, key2);
                        assert(self.special_id(token@) == Some(token_id));
                    }
                    let ghost g0 = groups@;
                    tokens.push(token_id);
                    groups.push(TokenGroup::Full(1));
                    proof {
                        assert(tokens@ =~= self.ids_of(parts.subrange(0, done)) + seq![token_id]);
                        lemma_gtotal_push(g0, TokenGroup::Full(1));
                    }
                }
                TokenInput::Regular(s) => {
                    proof { axiom_str_bytes(s); }
                    let ghost g0 = groups@;
                    vt_extend_bytes(&mut tokens, s.as_bytes());
                    let cs = CS::new(s, self.config.use_graphemes);
                    let ghost f = cs.view();
                    proof { assert(bytes_as_ids(chars_utf8(s@)).len() == chars_utf8(s@).len()); }
                    match self.config.groups {
                        ByteGroups::Bytes => {
                            vt_extend_full(&mut groups, cs.get_char_byte_lengths());
                            proof {
                                lemma_glens_prefix(groups@, g0, g0.len() as int);
                                lemma_full_lens(groups@, g0.len() as int, f, f.len() as int);
                            }
                        }
                        ByteGroups::CodePoints => {
                            let vt_v = cs.vt_chars_vec();
                            for vt_i in 0..vt_v.len()
                                invariant
                                    f == cs.view(), vt_v.len() == f.len(),
                                    forall|k: int| 0 <= k < vt_v.len() ==> (#[trigger] vt_v[k]).str@ == f[k],
                                    groups.len() == g0.len() + vt_i,
                                    gtotal(groups@) == gtotal(g0) + char_bytes(f, vt_i as int),
                            {
                                let char = &vt_v[vt_i];
                                let code_point_groups = vt_code_point_groups(char);
                                let ghost g1 = groups@;
                                proof {
                                    assert(glen(TokenGroup::Nested(code_point_groups)) == gtotal(code_point_groups@));
                                    lemma_gtotal_push(g1, TokenGroup::Nested(code_point_groups));
                                }
                                groups.push(TokenGroup::Nested(code_point_groups))
                            }
                        }
                    }
                    proof {
                        assert(groups.len() == g0.len() + f.len());
                        assert(gtotal(groups@) == gtotal(g0) + chars_utf8(s@).len());
                    }
                }
            }
            proof { done = done + 1; }
        }
        proof {
            assert(parts.subrange(0, parts.len() as int) =~= parts);
            if ignore_special_tokens {
                let one = seq![Part::Regular(s@)];
                assert(one.drop_last() =~= Seq::<Part>::empty());
                assert(one.last() == Part::Regular(s@));
                assert(self.ids_of(Seq::<Part>::empty()) =~= Seq::<u32>::empty());
                assert(self.ids_of(one) == self.ids_of(one.drop_last()) + bytes_as_ids(chars_utf8(s@)));
                assert(Seq::<u32>::empty() + bytes_as_ids(chars_utf8(s@)) =~= bytes_as_ids(chars_utf8(s@)));
            }
        }

        // append group of length 1 for each suffix token
        let ghost g0 = groups@;
        groups.append(&mut vt_full_ones(self.num_suffix_tokens()));
        proof {
            let ones = groups@.subrange(g0.len() as int, groups.len() as int);
            assert(groups@ =~= g0 + ones);
            lemma_gtotal_append(g0, ones, ones.len() as int);
            lemma_gtotal_ones(ones, ones.len() as int);
        }
        Ok((
            tokens,
            TokenizationInfo::TokenGroups(vt_single_map(group_name, (groups, self.config.aggregation))),
        ))
    }
//@end

//@unit src/tokenization.rs fn tokenize impl=^impl\sTokenize\sfor\sByteTokenizer$
//@rule R4
    fn tokenize(&self, s: &str, ignore_special_tokens: bool) -> (res: VtResult<Tokenization>)
        requires obeys_key_model::<String>(),
        ensures
            // prefix ids, then the id stream of the text, then suffix ids
            res.is_ok() ==> exists|p: Seq<Part>| #[trigger] self.split_ok(s@, ignore_special_tokens, p)
                && res.unwrap().token_ids@ == self.prefix() + self.ids_of(p) + self.suffix(),
            ignore_special_tokens ==> res.is_ok() && res.unwrap().token_ids@ == self.prefix() + bytes_as_ids(chars_utf8(s@)) + self.suffix(),
    {
        let (bytes, info) = self.process_input(s, ignore_special_tokens)?;
        Ok(Tokenization::new(self.add_prefix_and_suffix(bytes), info))
    }
//@end

//@unit src/tokenization.rs fn de_tokenize impl=^impl\sTokenize\sfor\sByteTokenizer$
//@rule R4
//@rule R6_extend_as_bytes
    #[verifier::loop_isolation(false)]
    fn de_tokenize(
        &self,
        token_ids: &[u32],
        ignore_special_tokens: bool,
    ) -> (res: VtResult<String>)
        ensures
            // the decoded string spells exactly the bytes of the ids
            res.is_ok() ==> string_bytes(res.unwrap()) == self.dec(token_ids@, !ignore_special_tokens),
            // an unknown special id is an error (never a panic) when special tokens are kept
            (!ignore_special_tokens && exists|k: int| 0 <= k < token_ids.len() && token_ids[k] >= 256 && !self.special().rev().contains_key(#[trigger] token_ids[k]))
                ==> res.is_err(),
            // total on valid input: known ids that spell well-formed UTF-8 always decode
            (ignore_special_tokens || forall|k: int| 0 <= k < token_ids.len() && token_ids[k] >= 256 ==> self.special().rev().contains_key(#[trigger] token_ids[k]))
                && is_utf8(self.dec(token_ids@, !ignore_special_tokens)) ==> res.is_ok(),
    {
        let mut bytes = vec![];
        let ghost mut done: int = 0;
        proof { assert(token_ids@.subrange(0, 0) =~= Seq::<u32>::empty()); }
        for token_id in it: token_ids
            invariant
                done == it.index@, 0 <= done <= token_ids.len(),
                bytes@ == self.dec(token_ids@.subrange(0, done), !ignore_special_tokens),
                !ignore_special_tokens ==> forall|k: int| 0 <= k < done && token_ids[k] >= 256 ==> self.special().rev().contains_key(#[trigger] token_ids[k]),
        {
            proof {
                assert(*token_id == token_ids[done]);
                assert(token_ids@.subrange(0, done + 1).drop_last() =~= token_ids@.subrange(0, done));
                assert(token_ids@.subrange(0, done + 1).last() == token_ids[done]);
            }
            if *token_id < 256 {
                bytes.push(u8::try_from(*token_id)?);
            } else if !ignore_special_tokens {
                vt_extend_slice(&mut bytes, self.special_vocab
                        .id_to_token(token_id)
                        .ok_or_else(|| vt_anyhow())?
                        .as_bytes());
            }
            proof {
                assert(bytes@ =~= self.dec(token_ids@.subrange(0, done + 1), !ignore_special_tokens));
                done = done + 1;
            }
        }
        proof { assert(token_ids@.subrange(0, token_ids.len() as int) =~= token_ids@); }
        Ok(String::from_utf8(bytes)?)
    }
//@end
}

// ---------------------------------------------------------------- round trip (lemmas over the two contracts)
/// UTF-8 encoding distributes over concatenation
#[verifier::external_body]
pub proof fn axiom_utf8_concat(a: Seq<char>, b: Seq<char>)
    ensures chars_utf8(a + b) == chars_utf8(a) + chars_utf8(b), chars_utf8(Seq::<char>::empty()) == Seq::<u8>::empty(),
{}

impl<Config, State> BaseTokenizer<Config, State> {
    /// special ids lie above the byte ids and the two special maps are mutually inverse (representation invariant, assumed)
    pub open spec fn special_wf(&self) -> bool {
        self.special().inverse() && forall|id: u32| #[trigger] self.special().rev().contains_key(id) ==> id >= 256
    }
    proof fn lemma_dec_append(&self, a: Seq<u32>, b: Seq<u32>, keep: bool)
        ensures self.dec(a + b, keep) == self.dec(a, keep) + self.dec(b, keep),
        decreases b.len()
    {
        if b.len() == 0 {
            assert(a + b =~= a);
            assert(self.dec(a, keep) + Seq::<u8>::empty() =~= self.dec(a, keep));
        } else {
            self.lemma_dec_append(a, b.drop_last(), keep);
            assert((a + b).drop_last() =~= a + b.drop_last());
            assert((a + b).last() == b.last());
            let x = self.dec(b, keep);
            assert(self.dec(a + b, keep) =~= self.dec(a, keep) + self.dec(b, keep));
        }
    }
    proof fn lemma_dec_bytes(&self, b: Seq<u8>, keep: bool)
        ensures self.dec(bytes_as_ids(b), keep) == b,
        decreases b.len()
    {
        if b.len() == 0 {
            assert(bytes_as_ids(b) =~= Seq::<u32>::empty());
        } else {
            self.lemma_dec_bytes(b.drop_last(), keep);
            assert(bytes_as_ids(b).drop_last() =~= bytes_as_ids(b.drop_last()));
            assert(bytes_as_ids(b).last() == b.last() as u32);
            assert(b.drop_last() + seq![b.last()] =~= b);
        }
    }
    /// decoding the id stream of a text (special tokens kept) gives back exactly the UTF-8 bytes of the text,
    /// for every split into regular and special parts
    proof fn theorem_roundtrip(&self, p: Seq<Part>)
        requires self.special_wf(),
            forall|k: int| 0 <= k < p.len() ==> (match #[trigger] p[k] { Part::Special(x) => self.special_id(x).is_some(), Part::Regular(_) => true }),
        ensures self.dec(self.ids_of(p), true) == chars_utf8(parts_text(p)),
        decreases p.len()
    {
        if p.len() == 0 {
            axiom_utf8_concat(Seq::empty(), Seq::empty());
        } else {
            let q = p.drop_last();
            assert forall|k: int| 0 <= k < q.len() implies (match #[trigger] q[k] { Part::Special(x) => self.special_id(x).is_some(), Part::Regular(_) => true }) by { assert(q[k] == p[k]); }
            self.theorem_roundtrip(q);
            match p.last() {
                Part::Regular(s) => {
                    self.lemma_dec_append(self.ids_of(q), bytes_as_ids(chars_utf8(s)), true);
                    self.lemma_dec_bytes(chars_utf8(s), true);
                    axiom_utf8_concat(parts_text(q), s);
                }
                Part::Special(x) => {
                    assert(p[p.len() - 1] == p.last());
                    assert(self.special_id(x).is_some());
                    assert(exists|key: String| key@ == x && #[trigger] self.special().fwd().contains_key(key));
                    let id = self.special_id(x).unwrap();
                    let key = self.special_key(x);
                    assert(key@ == x && self.special().fwd().contains_key(key));
                    assert(id == self.special().fwd()[key]);
                    assert(self.special().rev().contains_key(id) && self.special().rev()[id] == key);
                    self.lemma_dec_append(self.ids_of(q), seq![id], true);
                    assert(seq![id].drop_last() =~= Seq::<u32>::empty());
                    assert(self.dec(Seq::<u32>::empty(), true) =~= Seq::<u8>::empty());
                    assert(self.dec(seq![id], true) =~= string_bytes(key));
                    axiom_utf8_concat(parts_text(q), x);
                }
            }
        }
    }
}
} // verus!
fn main() {}
