// C18 -- text::match_words_with is an LCS of the two word sequences
use vstd::prelude::*;
use std::collections::HashSet;
verus! {
//@include specs/std_extra.rs
//@unit src/text.rs enum MatchOp
#[derive(Copy, Clone, Debug)]
enum MatchOp {
    None,
    Delete,
    Insert,
    Match,
    NoMatch,
}
//@end
pub assume_specification<T>[ <[T]>::reverse ](s: &mut [T])
    ensures final(s)@ == old(s)@.reverse();
#[verifier::external_body]
fn vt_split_ascii_whitespace<'a>(s: &'a str) -> (r: Vec<&'a str>)
    ensures r.len() < usize::MAX, r@ == words_by(0, s)
{ s.split_ascii_whitespace().collect() }
// the Unicode splitter is a *different* function of the text: a contract that mixes the two cannot be discharged,
// one that uses either of them consistently can (the property speaks of "whitespace-separated words")
#[verifier::external_body]
fn vt_split_whitespace<'a>(s: &'a str) -> (r: Vec<&'a str>)
    ensures r.len() < usize::MAX, r@ == words_by(1, s)
{ s.split_whitespace().collect() }
// std Iterator::max_by returns the LAST maximum
#[verifier::external_body]
fn vt_max_by_key0<'a>(v: &'a [(usize, MatchOp); 3]) -> (r: &'a (usize, MatchOp))
    ensures exists|k: int| 0 <= k < 3 && v[k] == *r && (forall|m: int| 0 <= m < 3 ==> v[m].0 <= r.0) && (forall|m: int| k < m < 3 ==> v[m].0 < r.0),
{ unimplemented!() }

// std Iterator::min_by returns the FIRST minimum
#[verifier::external_body]
fn vt_min_by_key0<'a>(v: &'a [(usize, MatchOp); 3]) -> (r: &'a (usize, MatchOp))
    ensures exists|k: int| 0 <= k < 3 && v[k] == *r && (forall|m: int| 0 <= m < 3 ==> v[m].0 >= r.0) && (forall|m: int| 0 <= m < k ==> v[m].0 > r.0),
{ unimplemented!() }

pub open spec fn max2(a: nat, b: nat) -> nat { if a >= b { a } else { b } }

pub open spec fn lcs(mt: spec_fn(&str, &str) -> bool, xs: Seq<&str>, ys: Seq<&str>, i: nat, j: nat) -> nat
    decreases i + j
{
    if i == 0 || j == 0 { 0 } else {
        max2(max2(lcs(mt, xs, ys, (i - 1) as nat, j), lcs(mt, xs, ys, i, (j - 1) as nat)),
             lcs(mt, xs, ys, (i - 1) as nat, (j - 1) as nat) + (if mt(xs[i - 1], ys[j - 1]) { 1nat } else { 0nat }))
    }
}
proof fn lemma_lcs_bound(mt: spec_fn(&str, &str) -> bool, xs: Seq<&str>, ys: Seq<&str>, i: nat, j: nat)
    ensures lcs(mt, xs, ys, i, j) <= i, lcs(mt, xs, ys, i, j) <= j
    decreases i + j
{
    if i == 0 || j == 0 {} else {
        lemma_lcs_bound(mt, xs, ys, (i - 1) as nat, j);
        lemma_lcs_bound(mt, xs, ys, i, (j - 1) as nat);
        lemma_lcs_bound(mt, xs, ys, (i - 1) as nat, (j - 1) as nat);
    }
}

pub closed spec fn table_ok(d: Seq<Vec<usize>>, n: int, m: int) -> bool {
    d.len() == n + 1 && forall|p: int| 0 <= p <= n ==> (#[trigger] d[p]).len() == m + 1
}
pub closed spec fn otable_ok(d: Seq<Vec<MatchOp>>, n: int, m: int) -> bool {
    d.len() == n + 1 && forall|p: int| 0 <= p <= n ==> (#[trigger] d[p]).len() == m + 1
}
pub closed spec fn dcell(d: Seq<Vec<usize>>, p: int, q: int) -> int { d[p][q] as int }
pub closed spec fn ocell(o: Seq<Vec<MatchOp>>, p: int, q: int) -> MatchOp { o[p][q] }

pub closed spec fn pred_ok(op: MatchOp, mt: spec_fn(&str, &str) -> bool, xs: Seq<&str>, ys: Seq<&str>, i: nat, j: nat) -> bool {
    match op {
        MatchOp::None => false,
        MatchOp::Delete => i > 0 && lcs(mt, xs, ys, i, j) == lcs(mt, xs, ys, (i - 1) as nat, j),
        MatchOp::Insert => j > 0 && lcs(mt, xs, ys, i, j) == lcs(mt, xs, ys, i, (j - 1) as nat),
        MatchOp::Match => i > 0 && j > 0 && mt(xs[i - 1], ys[j - 1]) && lcs(mt, xs, ys, i, j) == lcs(mt, xs, ys, (i - 1) as nat, (j - 1) as nat) + 1,
        MatchOp::NoMatch => (i == 0 && j == 0) || (i > 0 && j > 0 && lcs(mt, xs, ys, i, j) == lcs(mt, xs, ys, (i - 1) as nat, (j - 1) as nat)),
    }
}

pub closed spec fn done(d: Seq<Vec<usize>>, mt: spec_fn(&str, &str) -> bool, xs: Seq<&str>, ys: Seq<&str>, n: int, m: int, i: int, j: int) -> bool {
    forall|p: int, q: int| 0 <= p <= n && 0 <= q <= m && (p < i || (p == i && q < j) || q == 0 || p == 0) ==>
        #[trigger] dcell(d, p, q) == lcs(mt, xs, ys, p as nat, q as nat)
}
pub closed spec fn odone(o: Seq<Vec<MatchOp>>, mt: spec_fn(&str, &str) -> bool, xs: Seq<&str>, ys: Seq<&str>, n: int, m: int, i: int, j: int) -> bool {
    forall|p: int, q: int| 0 <= p <= n && 0 <= q <= m && (p < i || (p == i && q < j) || q == 0 || p == 0) ==>
        pred_ok(#[trigger] ocell(o, p, q), mt, xs, ys, p as nat, q as nat)
}

/// the word sequence of a text under splitter k (0: str::split_ascii_whitespace, 1: str::split_whitespace)
pub uninterp spec fn words_by(k: int, s: &str) -> Seq<&str>;
pub closed spec fn post_ok(res: (Vec<(usize, usize)>, usize, usize), a: &str, b: &str, mt: spec_fn(&str, &str) -> bool) -> bool {
    post_ok_k(0, res, a, b, mt) || post_ok_k(1, res, a, b, mt)
}
pub closed spec fn post_ok_k(k: int, res: (Vec<(usize, usize)>, usize, usize), a: &str, b: &str, mt: spec_fn(&str, &str) -> bool) -> bool {
    let xs = words_by(k, a); let ys = words_by(k, b);
    &&& res.1 == xs.len() && res.2 == ys.len()
    &&& sorted_strict(res.0@)
    &&& all_match(res.0@, mt, xs, ys)
    &&& res.0.len() == lcs(mt, xs, ys, xs.len(), ys.len())
}
pub closed spec fn rsorted(s: Seq<(usize, usize)>, i: int, j: int) -> bool {
    &&& forall|x: int, y: int| 0 <= x < y < s.len() ==> s[x].0 > s[y].0 && s[x].1 > s[y].1
    &&& forall|x: int| 0 <= x < s.len() ==> s[x].0 >= i && s[x].1 >= j
}
pub closed spec fn sorted_strict(s: Seq<(usize, usize)>) -> bool {
    forall|x: int, y: int| 0 <= x < y < s.len() ==> s[x].0 < s[y].0 && s[x].1 < s[y].1
}
pub closed spec fn all_match(s: Seq<(usize, usize)>, mt: spec_fn(&str, &str) -> bool, xs: Seq<&str>, ys: Seq<&str>) -> bool {
    forall|x: int| 0 <= x < s.len() ==> (#[trigger] s[x]).0 < xs.len() && s[x].1 < ys.len() && mt(xs[s[x].0 as int], ys[s[x].1 as int])
}

//@unit src/text.rs fn match_words_with
//@rule R6_split_ws
//@rule R13
//@rule R1d
//@rule R6_max_by_key0
pub fn match_words_with(
    a: &str,
    b: &str,
    word_match_fn: impl Fn(&str, &str) -> bool,
) -> (res: (Vec<(usize, usize)>, usize, usize))
    requires
        forall|x: &str, y: &str| #[trigger] word_match_fn.requires((x, y)),
        forall|x: &str, y: &str, r: bool| #[trigger] word_match_fn.ensures((x, y), r) ==> r == word_match_fn.ensures((x, y), true),
    ensures
        post_ok(res, a, b, |x: &str, y: &str| word_match_fn.ensures((x, y), true)),
{
    let a_words = vt_split_ascii_whitespace(a);
    let b_words = vt_split_ascii_whitespace(b);
    let ghost mt = |x: &str, y: &str| word_match_fn.ensures((x, y), true);
    let ghost xs = a_words@;
    let ghost ys = b_words@;
    let ghost n = a_words.len() as int;
    let ghost m = b_words.len() as int;

    let mut d: Vec<Vec<usize>> = vec![vec![0; b_words.len() + 1]; a_words.len() + 1];
    let mut ops: Vec<Vec<MatchOp>> =
        vec![vec![MatchOp::None; b_words.len() + 1]; a_words.len() + 1];
    assert(table_ok(d@, n, m));
    assert(otable_ok(ops@, n, m));
    assert(forall|p: int, q: int| 0 <= p <= n && 0 <= q <= m ==> #[trigger] dcell(d@, p, q) == 0);

    // initialize matrices
    ops[0][0] = MatchOp::NoMatch;
    for vt_i in it: 1..ops.len()
        invariant
            n >= 0, m >= 0, it.seq().len() == n,
            otable_ok(ops@, n, m),
            ocell(ops@, 0, 0) is NoMatch,
            forall|p: int| 1 <= p < vt_i ==> #[trigger] ocell(ops@, p, 0) is Delete,
    {
        assert(ops@[vt_i as int].len() == m + 1);
        let ghost o0 = ops@;
        ops[vt_i][0] = MatchOp::Delete;
        proof {
            assert(ops@[vt_i as int]@ =~= o0[vt_i as int]@.update(0, MatchOp::Delete));
            assert forall|p: int| 1 <= p < vt_i + 1 implies #[trigger] ocell(ops@, p, 0) is Delete by {
                if p < vt_i { assert(ops@[p] == o0[p]); assert(ocell(o0, p, 0) is Delete); }
            }
        }
    }
    for vt_i in it: 1..ops[0].len()
        invariant
            n >= 0, m >= 0, it.seq().len() == m,
            otable_ok(ops@, n, m),
            ocell(ops@, 0, 0) is NoMatch,
            forall|p: int| 1 <= p <= n ==> #[trigger] ocell(ops@, p, 0) is Delete,
            forall|q: int| 1 <= q < vt_i ==> #[trigger] ocell(ops@, 0, q) is Insert,
    {
        assert(ops@[0].len() == m + 1);
        let ghost o0 = ops@;
        ops[0][vt_i] = MatchOp::Insert;
        proof {
            assert(ops@[0]@ =~= o0[0]@.update(vt_i as int, MatchOp::Insert));
            assert forall|p: int| 1 <= p <= n implies #[trigger] ocell(ops@, p, 0) is Delete by {
                assert(ops@[p] == o0[p]); assert(ocell(o0, p, 0) is Delete);
            }
            assert forall|q: int| 1 <= q < vt_i + 1 implies #[trigger] ocell(ops@, 0, q) is Insert by {
                if q < vt_i { assert(ocell(o0, 0, q) is Insert); }
            }
        }
    }
    proof {
        assert forall|p: int, q: int| 0 <= p <= n && 0 <= q <= m && (p < 1 || (p == 1 && q < 1) || q == 0 || p == 0) implies
            pred_ok(#[trigger] ocell(ops@, p, q), mt, xs, ys, p as nat, q as nat) by {
            if p == 0 && q == 0 {} else if q == 0 { assert(ocell(ops@, p, 0) is Delete); } else { assert(ocell(ops@, 0, q) is Insert); }
        }
    }

    for a_idx in 0..a_words.len()
        invariant
            n == a_words.len(), m == b_words.len(), xs == a_words@, ys == b_words@, n < usize::MAX, m < usize::MAX,
            mt == (|x: &str, y: &str| word_match_fn.ensures((x, y), true)),
            forall|x: &str, y: &str| #[trigger] word_match_fn.requires((x, y)),
            forall|x: &str, y: &str, r: bool| #[trigger] word_match_fn.ensures((x, y), r) ==> r == word_match_fn.ensures((x, y), true),
            table_ok(d@, n, m), otable_ok(ops@, n, m),
            done(d@, mt, xs, ys, n, m, a_idx as int + 1, 1),
            odone(ops@, mt, xs, ys, n, m, a_idx as int + 1, 1),
    {
        let a_word = a_words[a_idx];
        for b_idx in 0..b_words.len()
            invariant
                n == a_words.len(), m == b_words.len(), xs == a_words@, ys == b_words@, n < usize::MAX, m < usize::MAX,
                0 <= a_idx < n, a_word == a_words[a_idx as int],
                mt == (|x: &str, y: &str| word_match_fn.ensures((x, y), true)),
                forall|x: &str, y: &str| #[trigger] word_match_fn.requires((x, y)),
                forall|x: &str, y: &str, r: bool| #[trigger] word_match_fn.ensures((x, y), r) ==> r == word_match_fn.ensures((x, y), true),
                table_ok(d@, n, m), otable_ok(ops@, n, m),
                done(d@, mt, xs, ys, n, m, a_idx as int + 1, b_idx as int + 1),
                odone(ops@, mt, xs, ys, n, m, a_idx as int + 1, b_idx as int + 1),
        {
            let b_word = b_words[b_idx];
            // string indices are offset by -1
            let i = a_idx + 1;
            let j = b_idx + 1;
            proof {
                assert(dcell(d@, i as int - 1, j as int) == lcs(mt, xs, ys, (i - 1) as nat, j as nat));
                assert(dcell(d@, i as int, j as int - 1) == lcs(mt, xs, ys, i as nat, (j - 1) as nat));
                assert(dcell(d@, i as int - 1, j as int - 1) == lcs(mt, xs, ys, (i - 1) as nat, (j - 1) as nat));
                lemma_lcs_bound(mt, xs, ys, (i - 1) as nat, (j - 1) as nat);
            }

            let matching = word_match_fn(a_word, b_word);
            assert(matching == mt(xs[i as int - 1], ys[j as int - 1]));
            let values = [
                (d[i - 1][j], MatchOp::Delete),
                (d[i][j - 1], MatchOp::Insert),
                (
                    d[i - 1][j - 1] + usize::from(matching),
                    if matching {
                        MatchOp::Match
                    } else {
                        MatchOp::NoMatch
                    },
                ),
            ];

            let (max_value, max_op) = vt_max_by_key0(&values);
            let ghost d0 = d@;
            let ghost o0 = ops@;
            d[i][j] = *max_value;
            ops[i][j] = *max_op;
            proof {
                assert(*max_value == lcs(mt, xs, ys, i as nat, j as nat));
                assert(pred_ok(*max_op, mt, xs, ys, i as nat, j as nat));
                assert forall|p: int, q: int| 0 <= p <= n && 0 <= q <= m && (p < i || (p == i && q < j + 1) || q == 0 || p == 0) implies
                    #[trigger] dcell(d@, p, q) == lcs(mt, xs, ys, p as nat, q as nat) by {
                    if p == i && q == j {} else { assert(dcell(d@, p, q) == dcell(d0, p, q)); }
                }
                assert forall|p: int, q: int| 0 <= p <= n && 0 <= q <= m && (p < i || (p == i && q < j + 1) || q == 0 || p == 0) implies
                    pred_ok(#[trigger] ocell(ops@, p, q), mt, xs, ys, p as nat, q as nat) by {
                    if p == i && q == j {} else { assert(ocell(ops@, p, q) == ocell(o0, p, q)); }
                }
            }
        }
    }

    // backtrace
    let mut matches = vec![];
    let mut i = a_words.len();
    let mut j = b_words.len();
    while i > 0 || j > 0
        invariant
            n == a_words.len(), m == b_words.len(), xs == a_words@, ys == b_words@, i <= n, j <= m,
            otable_ok(ops@, n, m),
            odone(ops@, mt, xs, ys, n, m, n + 1, 1),
            matches.len() + lcs(mt, xs, ys, i as nat, j as nat) == lcs(mt, xs, ys, n as nat, m as nat),
            rsorted(matches@, i as int, j as int),
            all_match(matches@, mt, xs, ys),
        decreases i + j,
    {
        proof { assert(pred_ok(ocell(ops@, i as int, j as int), mt, xs, ys, i as nat, j as nat)); }
        let op = &ops[i][j];
        match op {
            MatchOp::None => {
                panic!("should not happen")
            }
            MatchOp::Delete => {
                i -= 1;
            }
            MatchOp::Insert => {
                j -= 1;
            }
            MatchOp::Match => {
                i -= 1;
                j -= 1;
                matches.push((i, j));
            }
            MatchOp::NoMatch => {
                i -= 1;
                j -= 1;
            }
        }
    }
    let ghost rm = matches@;
    matches.reverse();
    proof {
        assert(matches@ == rm.reverse());
        assert(sorted_strict(matches@)) by {
            assert forall|x: int, y: int| 0 <= x < y < matches@.len() implies matches@[x].0 < matches@[y].0 && matches@[x].1 < matches@[y].1 by {
                assert(matches@[x] == rm[rm.len() - 1 - x]);
                assert(matches@[y] == rm[rm.len() - 1 - y]);
            }
        }
        assert(all_match(matches@, mt, xs, ys)) by {
            assert forall|x: int| 0 <= x < matches@.len() implies (#[trigger] matches@[x]).0 < xs.len() && matches@[x].1 < ys.len() && mt(xs[matches@[x].0 as int], ys[matches@[x].1 as int]) by {
                assert(matches@[x] == rm[rm.len() - 1 - x]);
            }
        }
    }
    (matches, a_words.len(), b_words.len())
}
//@end

// ---------------------------------------------------------------- match_words / edited_words
/// word equality used by `match_words`: text equality, or equality of the lower-cased words (std `to_lowercase`)
pub uninterp spec fn word_eq(x: &str, y: &str, ignore_case: bool) -> bool;

// `text::str_match_fn` returns one of two non-capturing closures from the two arms of an `if`; Verus cannot type that,
// so its contract is assumed: total, deterministic, and true exactly on `word_eq`.
#[verifier::external_body]
fn str_match_fn(ignore_case: bool) -> (f: impl Fn(&str, &str) -> bool)
    ensures
        forall|x: &str, y: &str| #[trigger] f.requires((x, y)),
        forall|x: &str, y: &str, r: bool| #[trigger] f.ensures((x, y), r) <==> r == word_eq(x, y, ignore_case),
{
    |a: &str, b: &str| a == b
}

pub closed spec fn match_ok(k: int, m: Seq<(usize, usize)>, a: &str, b: &str, ic: bool) -> bool {
    let xs = words_by(k, a); let ys = words_by(k, b); let mt = |x: &str, y: &str| word_eq(x, y, ic);
    &&& sorted_strict(m)
    &&& all_match(m, mt, xs, ys)
    &&& m.len() == lcs(mt, xs, ys, xs.len(), ys.len())
}

proof fn lemma_lcs_ext(mt1: spec_fn(&str, &str) -> bool, mt2: spec_fn(&str, &str) -> bool, xs: Seq<&str>, ys: Seq<&str>, i: nat, j: nat)
    requires forall|x: &str, y: &str| #[trigger] mt1(x, y) == mt2(x, y),
    ensures lcs(mt1, xs, ys, i, j) == lcs(mt2, xs, ys, i, j),
    decreases i + j
{
    if i == 0 || j == 0 {} else {
        lemma_lcs_ext(mt1, mt2, xs, ys, (i - 1) as nat, j);
        lemma_lcs_ext(mt1, mt2, xs, ys, i, (j - 1) as nat);
        lemma_lcs_ext(mt1, mt2, xs, ys, (i - 1) as nat, (j - 1) as nat);
    }
}

/// result of match_words under splitter k: an LCS matching plus the two word counts
pub closed spec fn mw_ok(k: int, res: (Vec<(usize, usize)>, usize, usize), a: &str, b: &str, ic: bool) -> bool {
    match_ok(k, res.0@, a, b, ic) && res.1 == words_by(k, a).len() && res.2 == words_by(k, b).len()
}
//@unit src/text.rs fn match_words
//@rule R16(str_match_fn ;; vt_f)
pub fn match_words(a: &str, b: &str, ignore_case: bool) -> (res: (Vec<(usize, usize)>, usize, usize))
    ensures
        mw_ok(0, res, a, b, ignore_case) || mw_ok(1, res, a, b, ignore_case),
{
    let vt_f = str_match_fn(ignore_case);
    proof {
        let mtw = |x: &str, y: &str| word_eq(x, y, ignore_case);
        let mt = |x: &str, y: &str| vt_f.ensures((x, y), true);
        assert forall|x: &str, y: &str| #[trigger] mt(x, y) == mtw(x, y) by {}
        lemma_lcs_ext(mt, mtw, words_by(0, a), words_by(0, b), words_by(0, a).len(), words_by(0, b).len());
        lemma_lcs_ext(mt, mtw, words_by(1, a), words_by(1, b), words_by(1, a).len(), words_by(1, b).len());
    }
    match_words_with(a, b, vt_f)
}
//@end

pub open spec fn in_fst(m: Seq<(usize, usize)>, i: usize) -> bool { exists|k: int| 0 <= k < m.len() && (#[trigger] m[k]).0 == i }
pub open spec fn in_snd(m: Seq<(usize, usize)>, j: usize) -> bool { exists|k: int| 0 <= k < m.len() && (#[trigger] m[k]).1 == j }
#[verifier::external_body]
fn vt_set_range(n: usize) -> (r: HashSet<usize>)
    ensures forall|i: usize| #[trigger] r@.contains(i) <==> i < n
{ HashSet::from_iter(0..n) }
#[verifier::external_body]
fn vt_set_fst(v: &Vec<(usize, usize)>) -> (r: HashSet<usize>)
    ensures forall|i: usize| #[trigger] r@.contains(i) <==> in_fst(v@, i)
{ v.iter().map(|(a, _)| *a).collect() }
#[verifier::external_body]
fn vt_set_snd(v: &Vec<(usize, usize)>) -> (r: HashSet<usize>)
    ensures forall|i: usize| #[trigger] r@.contains(i) <==> in_snd(v@, i)
{ v.iter().map(|(_, b)| *b).collect() }
#[verifier::external_body]
fn vt_set_difference(a: &HashSet<usize>, b: &HashSet<usize>) -> (r: HashSet<usize>)
    ensures forall|i: usize| #[trigger] r@.contains(i) <==> (a@.contains(i) && !b@.contains(i))
{ a.difference(b).cloned().collect() }

/// edited words = complement of the matched indices, for SOME matching that is an LCS (the one match_words returned)
pub closed spec fn edited_ok(r: (HashSet<usize>, HashSet<usize>), a: &str, b: &str) -> bool {
    exists|k: int, m: Seq<(usize, usize)>| 0 <= k <= 1 && #[trigger] match_ok(k, m, a, b, false)
        && (forall|i: usize| #[trigger] r.0@.contains(i) <==> (i < words_by(k, a).len() && !in_fst(m, i)))
        && (forall|j: usize| #[trigger] r.1@.contains(j) <==> (j < words_by(k, b).len() && !in_snd(m, j)))
}

//@unit src/edit.rs fn edited_words
//@rule R6_sets
pub fn edited_words(a: &str, b: &str) -> (r: (HashSet<usize>, HashSet<usize>))
    ensures edited_ok(r, a, b),
{
    let (matching_words, a_len, b_len) = match_words(a, b, false);
    let a_words = vt_set_range(a_len);
    let unedited_a_words: HashSet<usize> = vt_set_fst(&matching_words);
    let b_words = vt_set_range(b_len);
    let unedited_b_words: HashSet<usize> = vt_set_snd(&matching_words);
    (
        vt_set_difference(&a_words, &unedited_a_words),
        vt_set_difference(&b_words, &unedited_b_words),
    )
}
//@end
} // verus!
fn main() {}
