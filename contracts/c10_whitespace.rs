// C10 -- whitespace::operations / whitespace::repair are inverse; repair only touches whitespace
use vstd::prelude::*;
verus! {
//@include specs/std_extra.rs
//@include specs/err.rs
//@include specs/chars.rs
//@include specs/ws.rs
//@unit src/whitespace.rs enum Operation
//@rule derive_only(Debug ;; Clone ;; Copy ;; PartialEq ;; Eq)
#[derive(Debug, Clone, Copy, Eq, PartialEq)]
pub enum Operation {
    Keep,
    Insert,
    Delete,
}
//@end

impl vstd::std_specs::cmp::PartialEqSpecImpl for Operation {
    open spec fn obeys_eq_spec() -> bool { true }
    open spec fn eq_spec(&self, other: &Operation) -> bool { *self == *other }
}
pub open spec fn piece(s: Seq<Seq<char>>, ops: Seq<Operation>, idx: int) -> Seq<Seq<char>> {
    if ops[idx] == Operation::Insert && !ch_ws(s[idx]) && (idx == 0 || !ch_ws(s[idx - 1])) { seq![space(), s[idx]] }
    else if ops[idx] == Operation::Delete && ch_ws(s[idx]) { Seq::empty() }
    else { seq![s[idx]] }
}
pub open spec fn rep(s: Seq<Seq<char>>, ops: Seq<Operation>, k: int) -> Seq<Seq<char>>
    decreases k
{
    if k <= 0 { Seq::empty() } else { rep(s, ops, k - 1) + piece(s, ops, k - 1) }
}
proof fn lemma_rep_prefix(s: Seq<Seq<char>>, o0: Seq<Operation>, o1: Seq<Operation>, k: int)
    requires 0 <= k <= o0.len(), o1.len() >= o0.len(), forall|x: int| 0 <= x < k ==> o0[x] == o1[x],
    ensures rep(s, o0, k) == rep(s, o1, k),
    decreases k
{
    if k > 0 { lemma_rep_prefix(s, o0, o1, k - 1); }
}
//@unit src/whitespace.rs fn operations
//@rule R4
//@rule R15_collect
#[verifier::loop_isolation(false)]
pub fn operations(from: &str, to: &str, use_graphemes: bool) -> (res: VtResult<Vec<Operation>>)
    requires
        ops_pre(chars_of(from, use_graphemes), chars_of(to, use_graphemes)),
    ensures
        ({ let f = chars_of(from, use_graphemes); let t = chars_of(to, use_graphemes);
           res.is_ok() && res.unwrap().len() == f.len() && rep(f, res.unwrap()@, f.len() as int) == t }),
{
    let from_cs = CS::new(from, use_graphemes);
    let to_cs = CS::new(to, use_graphemes);
    let from_chars: Vec<Character> = from_cs.vt_chars_vec();
    let to_chars: Vec<Character> = to_cs.vt_chars_vec();
    let mut operations = Vec::with_capacity(from_chars.len().max(to_chars.len()));
    let mut from_ptr = 0;
    let mut to_ptr = 0;
    let ghost f = chars_of(from, use_graphemes);
    let ghost t = chars_of(to, use_graphemes);
    proof { axiom_space_ws(); assert(t.subrange(0, 0) =~= Seq::<Seq<char>>::empty()); }
    while from_ptr < from_chars.len()
        invariant
            f == chv(from_chars@), t == chv(to_chars@), is_clean(f), is_clean(t),
            from_ptr <= from_chars.len(), to_ptr <= to_chars.len(),
            operations.len() == from_ptr,
            rep(f, operations@, from_ptr as int) == t.subrange(0, to_ptr as int),
            strip_from(f, from_ptr as int) == strip_from(t, to_ptr as int),
            from_ptr > 0 && ch_ws(f[from_ptr as int - 1]) ==> (to_ptr < t.len() ==> !ch_ws(t[to_ptr as int])),
        decreases from_chars.len() - from_ptr,
    {
        let ghost ops0 = operations@;
        let ghost old_tp = to_ptr;
        proof {
            axiom_space_ws();
            assert(f[from_ptr as int] == from_chars[from_ptr as int].str@);
            if to_ptr < to_chars.len() { assert(t[to_ptr as int] == to_chars[to_ptr as int].str@); }
        }
        let from_char = &from_chars[from_ptr];
        let to_char = if to_ptr < to_chars.len() {
            Some(&to_chars[to_ptr])
        } else {
            None
        };
        if to_char.is_some() && from_char == to_char.unwrap() {
            operations.push(Operation::Keep);
            to_ptr += 1;
            proof {
                let fp = from_ptr as int; let tp0 = old_tp as int;
                assert(f[fp] == t[tp0]);
                assert(strip_from(f, fp) == if ch_ws(f[fp]) { strip_from(f, fp + 1) } else { seq![f[fp]] + strip_from(f, fp + 1) });
                assert(strip_from(t, tp0) == if ch_ws(t[tp0]) { strip_from(t, tp0 + 1) } else { seq![t[tp0]] + strip_from(t, tp0 + 1) });
                if !ch_ws(f[fp]) {
                    let a1 = seq![f[fp]] + strip_from(f, fp + 1); let a2 = seq![t[tp0]] + strip_from(t, tp0 + 1);
                    assert(a1 == a2);
                    assert(strip_from(f, fp + 1) =~= a1.subrange(1, a1.len() as int));
                    assert(strip_from(t, tp0 + 1) =~= a2.subrange(1, a2.len() as int));
                }
                assert(piece(f, operations@, fp) == seq![f[fp]]);
            }
        } else if to_char.is_some() && to_char.unwrap().is_whitespace() {
            proof {
                let fp = from_ptr as int; let tp0 = old_tp as int;
                // from char is not whitespace (otherwise both would be " " and equal)
                assert(!ch_ws(f[fp]));
                assert(t[tp0] == space());
                assert(strip_from(f, fp) == seq![f[fp]] + strip_from(f, fp + 1));
                assert(strip_from(t, tp0) == strip_from(t, tp0 + 1));
                assert(tp0 + 1 < t.len());
                assert(!ch_ws(t[tp0 + 1]));
                assert(strip_from(t, tp0 + 1) == seq![t[tp0 + 1]] + strip_from(t, tp0 + 2));
                let a1 = seq![f[fp]] + strip_from(f, fp + 1); let a2 = seq![t[tp0 + 1]] + strip_from(t, tp0 + 2);
                assert(a1 == a2);
                assert(a1[0] == a2[0]);
                assert(strip_from(f, fp + 1) =~= a1.subrange(1, a1.len() as int));
                assert(strip_from(t, tp0 + 2) =~= a2.subrange(1, a2.len() as int));
            }
            operations.push(Operation::Insert);
            to_ptr += 2;
            proof {
                let fp = from_ptr as int;
                assert(piece(f, operations@, fp) == seq![space(), f[fp]]);
            }
        } else if from_char.is_whitespace() {
            operations.push(Operation::Delete);
            proof {
                let fp = from_ptr as int;
                assert(strip_from(f, fp) == strip_from(f, fp + 1));
                assert(piece(f, operations@, fp) == Seq::<Seq<char>>::empty());
            }
        } else {
            proof {
                let fp = from_ptr as int; let tp0 = old_tp as int;
                assert(strip_from(f, fp) == seq![f[fp]] + strip_from(f, fp + 1));
                if tp0 < t.len() {
                    assert(strip_from(t, tp0) == seq![t[tp0]] + strip_from(t, tp0 + 1));
                    assert((seq![f[fp]] + strip_from(f, fp + 1))[0] == (seq![t[tp0]] + strip_from(t, tp0 + 1))[0]);
                } else {
                    assert(strip_from(t, tp0).len() == 0);
                    assert((seq![f[fp]] + strip_from(f, fp + 1)).len() > 0);
                }
                assert(false);
            }
            return Err(vt_anyhow());
        }
        proof {
            lemma_rep_prefix(f, ops0, operations@, from_ptr as int);
            let fp = from_ptr as int; let tp0 = old_tp as int;
            assert(rep(f, operations@, fp + 1) == rep(f, operations@, fp) + piece(f, operations@, fp));
            assert(operations@[fp] == operations@.last());
            if to_ptr == tp0 + 1 {
                assert(t.subrange(0, tp0 + 1) =~= t.subrange(0, tp0) + seq![t[tp0]]);
            } else if to_ptr == tp0 + 2 {
                assert(t.subrange(0, tp0 + 2) =~= t.subrange(0, tp0) + seq![t[tp0], t[tp0 + 1]]);
            } else {
                assert(t.subrange(0, tp0) + Seq::<Seq<char>>::empty() =~= t.subrange(0, tp0));
            }
        }
        from_ptr += 1;
    }
    proof {
        // all of `to` consumed
        if to_ptr < t.len() { lemma_strip_nonempty_if_nonws(t, to_ptr as int, t.len() - 1); }
        assert(t.subrange(0, t.len() as int) =~= t);
    }
    Ok(operations)
}
//@end

fn vt_min(a: usize, b: usize) -> (r: usize) ensures r == if a <= b { a } else { b } { if a <= b { a } else { b } }
//@unit src/whitespace.rs fn repair
//@rule R4
//@rule R15_collect
//@rule R2
//@rule R7
#[verifier::loop_isolation(false)]
pub fn repair(s: &str, operations: &[Operation], use_graphemes: bool) -> (res: VtResult<String>)
    ensures
        ({ let f = chars_of(s, use_graphemes);
           (res.is_err() <==> f.len() != operations@.len())
           && (res.is_ok() ==> res.unwrap()@ == flat(rep(f, operations@, f.len() as int))) }),
{
    let cs = CS::new(s, use_graphemes);
    let chars: Vec<Character> = cs.vt_chars_vec();
    if chars.len() != operations.len() {
        return Err({ let _vt_fmt_args = (&(operations.len()), &(chars.len()),); vt_anyhow() });
    };

    let mut output = String::new();
    let ghost f = chars_of(s, use_graphemes);
    proof { assert(flat(Seq::<Seq<char>>::empty()) =~= Seq::<char>::empty()); }
    for idx in 0..vt_min(chars.len(), operations.len())
        invariant
            f == chv(chars@), chars.len() == operations.len(),
            output@ == flat(rep(f, operations@, idx as int)),
    {
        let (char, op) = (&chars[idx], &operations[idx]);
        proof {
            assert(f[idx as int] == chars[idx as int].str@);
            if idx > 0 { assert(f[idx as int - 1] == chars[idx as int - 1].str@); }
            let p = piece(f, operations@, idx as int);
            lemma_flat_append(rep(f, operations@, idx as int), p);
            assert(flat(seq![space(), f[idx as int]]) =~= space() + f[idx as int]) by { reveal_with_fuel(flat, 3); }
            assert(flat(seq![f[idx as int]]) =~= f[idx as int]) by { reveal_with_fuel(flat, 2); }
            assert(flat(Seq::<Seq<char>>::empty()) =~= Seq::<char>::empty());
        }
        if *op == Operation::Insert
            && !char.is_whitespace()
            && (idx == 0 || !chars[idx - 1].is_whitespace())
        {
            output.push(' ');
            output.push_str(char.str);
        } else if *op == Operation::Delete && char.is_whitespace() {
        } else {
            output.push_str(char.str);
        }
    }
    Ok(output)
}
//@end

// ---------------------------------------------------------------- property-level lemmas over `rep` alone
/// repair changes nothing but whitespace: for EVERY operation sequence
proof fn lemma_rep_preserves_nonws(s: Seq<Seq<char>>, ops: Seq<Operation>, k: int)
    requires 0 <= k <= s.len(), ops.len() >= k,
    ensures strip(rep(s, ops, k)) == strip(s.subrange(0, k)),
    decreases k
{
    if k == 0 {
        assert(s.subrange(0, 0) =~= Seq::<Seq<char>>::empty());
    } else {
        axiom_space_ws();
        lemma_rep_preserves_nonws(s, ops, k - 1);
        let p = piece(s, ops, k - 1);
        lemma_strip_append(rep(s, ops, k - 1), p, 0);
        lemma_strip_append(s.subrange(0, k - 1), seq![s[k - 1]], 0);
        assert(s.subrange(0, k) =~= s.subrange(0, k - 1) + seq![s[k - 1]]);
        // strip(piece) == strip([s[k-1]])
        reveal_with_fuel(strip_from, 4);
        if ops[k - 1] == Operation::Insert && !ch_ws(s[k - 1]) && (k - 1 == 0 || !ch_ws(s[k - 2])) {
            assert(p == seq![space(), s[k - 1]]);
            assert(strip_from(p, 0) =~= seq![s[k - 1]]);
            assert(strip_from(seq![s[k - 1]], 0) =~= seq![s[k - 1]]);
        } else if ops[k - 1] == Operation::Delete && ch_ws(s[k - 1]) {
            assert(strip_from(p, 0) =~= Seq::<Seq<char>>::empty());
            assert(strip_from(seq![s[k - 1]], 0) =~= Seq::<Seq<char>>::empty());
        } else {
            assert(p == seq![s[k - 1]]);
        }
    }
}
/// an all-Keep sequence is the identity
proof fn lemma_rep_all_keep(s: Seq<Seq<char>>, ops: Seq<Operation>, k: int)
    requires 0 <= k <= s.len(), ops.len() >= k, forall|i: int| 0 <= i < k ==> ops[i] == Operation::Keep,
    ensures rep(s, ops, k) == s.subrange(0, k),
    decreases k
{
    if k == 0 {
        assert(s.subrange(0, 0) =~= Seq::<Seq<char>>::empty());
    } else {
        lemma_rep_all_keep(s, ops, k - 1);
        assert(s.subrange(0, k) =~= s.subrange(0, k - 1) + seq![s[k - 1]]);
    }
}
/// Round trip of the property: composition of the two contracts below.
/// operations() ensures rep(f, ops, |f|) == t, repair() ensures out == flat(rep(f, ops, |f|)); hence out == flat(t),
/// and flat(chars_of(to)) is `to` itself (the characters concatenate to the string: assumed of CharString::new).
proof fn theorem_roundtrip(f: Seq<Seq<char>>, t: Seq<Seq<char>>, ops: Seq<Operation>, out: Seq<char>)
    requires ops.len() == f.len(), rep(f, ops, f.len() as int) == t, out == flat(rep(f, ops, f.len() as int)),
    ensures out == flat(t), strip(t) == strip(f),
{
    lemma_rep_preserves_nonws(f, ops, f.len() as int);
    assert(f.subrange(0, f.len() as int) =~= f);
}
} // verus!
fn main() {}
