// C11 -- text::clean produces the whitespace normal form; whitespace::remove / whitespace::full
use vstd::prelude::*;
verus! {
//@include specs/std_extra.rs
//@include specs/err.rs
//@include specs/chars.rs
//@include specs/ws.rs

// ---------------------------------------------------------------- trusted prelude (this file)
/// `str::trim` (std): leading / trailing White_Space removed
pub uninterp spec fn trim_of(c: Seq<char>) -> Seq<char>;
#[verifier::external_body]
fn vt_trim<'a>(s: &'a str) -> (r: &'a str)
    ensures r@ == trim_of(s@),
{ s.trim() }

/// Domain of the property: no character (code point or grapheme cluster) mixes whitespace with non-whitespace code
/// points.  Then a non-whitespace character is unchanged by `trim`, and every character is non-empty.
pub open spec fn nomix(f: Seq<Seq<char>>) -> bool {
    forall|k: int| 0 <= k < f.len() ==> (#[trigger] f[k]).len() > 0 && (!ch_ws(f[k]) ==> trim_of(f[k]) == f[k])
}

/// `X.chars().filter(p).join(sep)` (itertools): p is evaluated once per character; the characters for which it
/// returned true are kept, in order, and separated by sep
pub open spec fn filt_ok<'a, F: Fn(&Character<'a>) -> bool>(v: Seq<Character<'a>>, p: F, bits: Seq<bool>) -> bool {
    bits.len() == v.len() && forall|k: int| 0 <= k < v.len() ==> p.ensures((&v[k],), #[trigger] bits[k])
}
pub open spec fn select(f: Seq<Seq<char>>, bits: Seq<bool>) -> Seq<Seq<char>>
    decreases f.len()
{
    if f.len() == 0 || bits.len() != f.len() { Seq::empty() }
    else if bits.last() { select(f.drop_last(), bits.drop_last()).push(f.last()) }
    else { select(f.drop_last(), bits.drop_last()) }
}
pub open spec fn join_sep(w: Seq<Seq<char>>, sep: Seq<char>) -> Seq<char>
    decreases w.len()
{
    if w.len() == 0 { Seq::empty() }
    else if w.len() == 1 { w[0] }
    else { join_sep(w.drop_last(), sep) + sep + w.last() }
}
#[verifier::external_body]
fn vt_filter_join<'a, F: Fn(&Character<'a>) -> bool>(v: Vec<Character<'a>>, p: F, sep: &str) -> (r: String)
    requires forall|c: &Character<'a>| #[trigger] p.requires((c,)),
    ensures exists|bits: Seq<bool>| #[trigger] filt_ok(v@, p, bits) && r@ == join_sep(select(chv(v@), bits), sep@),
{ unimplemented!() }

// ---------------------------------------------------------------- specification of clean
/// words of the first k characters: maximal runs of non-whitespace characters (the last one may still grow)
pub open spec fn words(f: Seq<Seq<char>>, k: int) -> Seq<Seq<Seq<char>>>
    decreases k
{
    if k <= 0 { Seq::empty() } else {
        let w = words(f, k - 1);
        if ch_ws(f[k - 1]) { w }
        else if k >= 2 && !ch_ws(f[k - 2]) && w.len() > 0 { w.drop_last().push(w.last().push(f[k - 1])) }
        else { w.push(seq![f[k - 1]]) }
    }
}
/// words joined by single spaces, as a character sequence
pub open spec fn join_words(w: Seq<Seq<Seq<char>>>) -> Seq<Seq<char>>
    decreases w.len()
{
    if w.len() == 0 { Seq::empty() }
    else if w.len() == 1 { w[0] }
    else { join_words(w.drop_last()).push(space()) + w.last() }
}
/// THE normal form of the property statement
pub open spec fn normal_form(f: Seq<Seq<char>>) -> Seq<Seq<char>> { join_words(words(f, f.len() as int)) }

/// incremental characterisation used by the loop invariant (proved equal to join_words(words(..)) below)
pub open spec fn ncs(f: Seq<Seq<char>>, k: int) -> Seq<Seq<char>>
    decreases k
{
    if k <= 0 { Seq::empty() } else {
        let p = ncs(f, k - 1);
        if ch_ws(f[k - 1]) { p }
        else if k >= 2 && ch_ws(f[k - 2]) && p.len() > 0 { p.push(space()).push(f[k - 1]) }
        else { p.push(f[k - 1]) }
    }
}

proof fn lemma_words_nonempty(f: Seq<Seq<char>>, k: int)
    requires 0 <= k <= f.len(),
    ensures
        forall|x: int| 0 <= x < words(f, k).len() ==> (#[trigger] words(f, k)[x]).len() > 0,
        (k >= 1 && !ch_ws(f[k - 1])) ==> words(f, k).len() > 0,
        words(f, k).len() > 0 <==> (exists|j: int| 0 <= j < k && !ch_ws(f[j])),
    decreases k
{
    if k > 0 {
        lemma_words_nonempty(f, k - 1);
        let w = words(f, k - 1);
        if ch_ws(f[k - 1]) {
            assert forall|j: int| 0 <= j < k && !ch_ws(f[j]) implies 0 <= j < k - 1 by {}
        } else {
            assert(!ch_ws(f[k - 1]));
        }
    }
}

proof fn lemma_join_push_word(w: Seq<Seq<Seq<char>>>, c: Seq<char>)
    ensures join_words(w.push(seq![c])) == (if w.len() == 0 { seq![c] } else { join_words(w).push(space()).push(c) }),
{
    let w2 = w.push(seq![c]);
    assert(w2.drop_last() =~= w);
    assert(w2.last() == seq![c]);
    if w.len() == 0 {
        assert(w2[0] == seq![c]);
    } else {
        assert(join_words(w).push(space()) + seq![c] =~= join_words(w).push(space()).push(c));
    }
}
proof fn lemma_join_extend_last(w: Seq<Seq<Seq<char>>>, c: Seq<char>)
    requires w.len() > 0,
    ensures join_words(w.drop_last().push(w.last().push(c))) == join_words(w).push(c),
{
    let w2 = w.drop_last().push(w.last().push(c));
    assert(w2.drop_last() =~= w.drop_last());
    assert(w2.last() == w.last().push(c));
    if w.len() == 1 {
        assert(w2.len() == 1);
        assert(w2[0] == w[0].push(c));
        assert(w[0] == w.last());
    } else {
        assert(join_words(w.drop_last()).push(space()) + w.last().push(c) =~= (join_words(w.drop_last()).push(space()) + w.last()).push(c));
    }
}
/// the incremental form is the statement's "words joined by single spaces"
proof fn lemma_cs_is_join(f: Seq<Seq<char>>, k: int)
    requires 0 <= k <= f.len(),
    ensures ncs(f, k) == join_words(words(f, k)), ncs(f, k).len() > 0 <==> words(f, k).len() > 0,
    decreases k
{
    if k > 0 {
        lemma_cs_is_join(f, k - 1);
        lemma_words_nonempty(f, k - 1);
        lemma_words_nonempty(f, k);
        let w = words(f, k - 1);
        let c = f[k - 1];
        if ch_ws(c) {
        } else if k >= 2 && !ch_ws(f[k - 2]) {
            // previous character belongs to the last word: extend it
            assert(w.len() > 0);
            lemma_join_extend_last(w, c);
        } else {
            lemma_join_push_word(w, c);
            if k >= 2 { assert(ch_ws(f[k - 2])); }
            if w.len() == 0 { assert(ncs(f, k - 1).len() == 0); assert(Seq::<Seq<char>>::empty().push(c) =~= seq![c]); }
        }
        // join of a non-empty list of non-empty words is non-empty
        lemma_join_len(words(f, k));
    }
}
proof fn lemma_join_len(w: Seq<Seq<Seq<char>>>)
    requires forall|x: int| 0 <= x < w.len() ==> (#[trigger] w[x]).len() > 0,
    ensures join_words(w).len() > 0 <==> w.len() > 0,
    decreases w.len()
{
    if w.len() > 1 {
        assert forall|x: int| 0 <= x < w.drop_last().len() implies (#[trigger] w.drop_last()[x]).len() > 0 by { assert(w.drop_last()[x] == w[x]); }
        lemma_join_len(w.drop_last());
    } else if w.len() == 1 {
        assert(w[0].len() > 0);
    }
}

proof fn lemma_flat_nonempty(p: Seq<Seq<char>>)
    requires forall|x: int| 0 <= x < p.len() ==> (#[trigger] p[x]).len() > 0,
    ensures flat(p).len() > 0 <==> p.len() > 0,
    decreases p.len()
{
    if p.len() > 0 {
        assert forall|x: int| 0 <= x < p.drop_last().len() implies (#[trigger] p.drop_last()[x]).len() > 0 by { assert(p.drop_last()[x] == p[x]); }
        lemma_flat_nonempty(p.drop_last());
        assert(p.last().len() > 0);
    }
}
proof fn lemma_cs_elems(f: Seq<Seq<char>>, k: int)
    requires 0 <= k <= f.len(), nomix(f),
    ensures forall|x: int| 0 <= x < ncs(f, k).len() ==> (#[trigger] ncs(f, k)[x]).len() > 0,
    decreases k
{
    if k > 0 {
        lemma_cs_elems(f, k - 1);
        assert(f[k - 1].len() > 0);
        assert(space().len() == 1);
        let p = ncs(f, k - 1);
        assert forall|x: int| 0 <= x < ncs(f, k).len() implies (#[trigger] ncs(f, k)[x]).len() > 0 by {
            if x < p.len() { assert(ncs(f, k)[x] == p[x]); }
        }
    }
}


// ---------------------------------------------------------------- property-level lemmas about the normal form
/// (a) no leading / trailing / consecutive whitespace, only single spaces as separators
proof fn lemma_ncs_clean(f: Seq<Seq<char>>, k: int)
    requires 0 <= k <= f.len(),
    ensures is_clean(ncs(f, k)), ncs(f, k).len() > 0 ==> !ch_ws(ncs(f, k).last()),
    decreases k
{
    if k > 0 {
        axiom_space_ws();
        lemma_ncs_clean(f, k - 1);
        let p = ncs(f, k - 1);
        let c = f[k - 1];
        let r = ncs(f, k);
        if ch_ws(c) {
        } else if k >= 2 && ch_ws(f[k - 2]) && p.len() > 0 {
            assert(r == p.push(space()).push(c));
            assert forall|x: int| 0 <= x < r.len() && ch_ws(#[trigger] r[x]) implies r[x] == space() by {
                if x < p.len() { assert(r[x] == p[x]); }
            }
            assert forall|x: int| 0 <= x < r.len() - 1 && ch_ws(#[trigger] r[x]) implies !ch_ws(r[x + 1]) by {
                if x < p.len() - 1 { assert(r[x] == p[x]); assert(r[x + 1] == p[x + 1]); }
                else if x == p.len() - 1 { assert(r[x] == p.last()); }
            }
            assert(r[0] == p[0]);
        } else {
            assert(r == p.push(c));
            assert forall|x: int| 0 <= x < r.len() && ch_ws(#[trigger] r[x]) implies r[x] == space() by {
                if x < p.len() { assert(r[x] == p[x]); }
            }
            assert forall|x: int| 0 <= x < r.len() - 1 && ch_ws(#[trigger] r[x]) implies !ch_ws(r[x + 1]) by {
                if x < p.len() - 1 { assert(r[x] == p[x]); assert(r[x + 1] == p[x + 1]); }
                else { assert(r[x] == p.last()); }
            }
            if p.len() > 0 { assert(r[0] == p[0]); }
        }
    }
}
/// (b) the sequence of non-whitespace characters is preserved
proof fn lemma_ncs_strip(f: Seq<Seq<char>>, k: int)
    requires 0 <= k <= f.len(),
    ensures strip(ncs(f, k)) == strip(f.subrange(0, k)),
    decreases k
{
    if k == 0 {
        assert(f.subrange(0, 0) =~= Seq::<Seq<char>>::empty());
    } else {
        axiom_space_ws();
        lemma_ncs_strip(f, k - 1);
        let p = ncs(f, k - 1);
        let c = f[k - 1];
        assert(f.subrange(0, k) =~= f.subrange(0, k - 1) + seq![c]);
        lemma_strip_append(f.subrange(0, k - 1), seq![c], 0);
        reveal_with_fuel(strip_from, 4);
        if ch_ws(c) {
            assert(strip_from(seq![c], 0) =~= Seq::<Seq<char>>::empty());
            assert(strip(f.subrange(0, k - 1)) + Seq::<Seq<char>>::empty() =~= strip(f.subrange(0, k - 1)));
        } else {
            assert(strip_from(seq![c], 0) =~= seq![c]);
            if k >= 2 && ch_ws(f[k - 2]) && p.len() > 0 {
                assert(p.push(space()).push(c) =~= p + seq![space(), c]);
                lemma_strip_append(p, seq![space(), c], 0);
                assert(strip_from(seq![space(), c], 0) =~= seq![c]);
            } else {
                assert(p.push(c) =~= p + seq![c]);
                lemma_strip_append(p, seq![c], 0);
            }
        }
    }
}
/// (c) a clean sequence is its own normal form; hence the normal form is idempotent
proof fn lemma_ncs_fixpoint(x: Seq<Seq<char>>, k: int)
    requires is_clean(x), 0 <= k <= x.len(),
    ensures ncs(x, k) == (if k >= 1 && ch_ws(x[k - 1]) { x.subrange(0, k - 1) } else { x.subrange(0, k) }),
    decreases k
{
    if k == 0 {
        assert(x.subrange(0, 0) =~= Seq::<Seq<char>>::empty());
    } else {
        lemma_ncs_fixpoint(x, k - 1);
        let c = x[k - 1];
        if ch_ws(c) {
            // not leading, and the previous character is not whitespace
            assert(k >= 2);
            assert(!ch_ws(x[k - 2]));
        } else if k >= 2 && ch_ws(x[k - 2]) {
            assert(x[k - 2] == space());
            assert(k >= 3);
            assert(ncs(x, k - 1) == x.subrange(0, k - 2));
            assert(x.subrange(0, k - 2).push(space()).push(c) =~= x.subrange(0, k));
        } else {
            assert(x.subrange(0, k - 1).push(c) =~= x.subrange(0, k));
        }
    }
}
proof fn theorem_normal_form(f: Seq<Seq<char>>)
    ensures
        normal_form(f) == ncs(f, f.len() as int),
        is_clean(normal_form(f)),
        strip(normal_form(f)) == strip(f),
        normal_form(normal_form(f)) == normal_form(f),
{
    let n = f.len() as int;
    lemma_cs_is_join(f, n);
    lemma_ncs_clean(f, n);
    lemma_ncs_strip(f, n);
    assert(f.subrange(0, n) =~= f);
    let x = ncs(f, n);
    lemma_ncs_fixpoint(x, x.len() as int);
    lemma_cs_is_join(x, x.len() as int);
    assert(x.subrange(0, x.len() as int) =~= x);
}

//@unit src/text.rs fn clean
//@rule R14
//@rule subst(char.str.trim()=>vt_trim(char.str))
#[verifier::loop_isolation(false)]
pub fn clean(s: &str, use_graphemes: bool) -> (res: String)
    requires nomix(chars_of(s, use_graphemes)),
    ensures res@ == flat(normal_form(chars_of(s, use_graphemes))),
{
    let cs = CS::new(s, use_graphemes);
    let mut output = String::new();
    let mut last_was_whitespace = false;
    let ghost f = chars_of(s, use_graphemes);
    let vt_v = cs.vt_chars_vec();
    let mut vt_i = 0;
    proof { assert(flat(Seq::<Seq<char>>::empty()) =~= Seq::<char>::empty()); }
    while vt_i < vt_v.len()
        invariant
            f == chv(vt_v@), nomix(f), vt_i <= vt_v.len(),
            output@ == flat(ncs(f, vt_i as int)),
            last_was_whitespace == (vt_i >= 1 && ch_ws(f[vt_i as int - 1])),
            (output@.len() > 0) == (ncs(f, vt_i as int).len() > 0),
        decreases vt_v.len() - vt_i,
    {
        let char = &vt_v[vt_i];
        vt_i += 1;
        proof {
            assert(f[vt_i as int - 1] == char.str@);
            lemma_cs_elems(f, vt_i as int);
            lemma_flat_nonempty(ncs(f, vt_i as int));
            let p = ncs(f, vt_i as int - 1);
            lemma_flat_append(p, seq![space()]);
            lemma_flat_append(p.push(space()), seq![f[vt_i as int - 1]]);
            lemma_flat_append(p, seq![f[vt_i as int - 1]]);
            assert(p + seq![space()] =~= p.push(space()));
            assert(p.push(space()) + seq![f[vt_i as int - 1]] =~= p.push(space()).push(f[vt_i as int - 1]));
            assert(p + seq![f[vt_i as int - 1]] =~= p.push(f[vt_i as int - 1]));
            assert(flat(seq![space()]) =~= space()) by { reveal_with_fuel(flat, 2); }
            assert(flat(seq![f[vt_i as int - 1]]) =~= f[vt_i as int - 1]) by { reveal_with_fuel(flat, 2); }
        }
        if char.is_whitespace() {
            last_was_whitespace = true;
            continue;
        } else if last_was_whitespace && !output.is_empty() {
            output.push(' ');
        }
        last_was_whitespace = false;
        // char.is_whitespace() is only true for characters that
        // contain only whitespace unicode code points, so we trim
        // remaining whitespaces here again. it should be enough to trim here because
        // whitespaces should never occurr in the middle of a grapheme cluster with
        // > 2 code points
        output.push_str(vt_trim(char.str));
    }
    proof { lemma_cs_is_join(f, f.len() as int); }
    output
}
//@end

// ---------------------------------------------------------------- remove / full
proof fn lemma_select_is_strip(f: Seq<Seq<char>>, bits: Seq<bool>)
    requires bits.len() == f.len(), forall|k: int| 0 <= k < f.len() ==> #[trigger] bits[k] == !ch_ws(f[k]),
    ensures select(f, bits) == strip(f),
    decreases f.len()
{
    if f.len() == 0 {
    } else {
        lemma_select_is_strip(f.drop_last(), bits.drop_last());
        assert(f =~= f.drop_last().push(f.last()));
        lemma_strip_append(f.drop_last(), seq![f.last()], 0);
        assert(f.drop_last() + seq![f.last()] =~= f);
        reveal_with_fuel(strip_from, 3);
        if ch_ws(f.last()) {
            assert(strip_from(seq![f.last()], 0) =~= Seq::<Seq<char>>::empty());
            assert(strip(f.drop_last()) + Seq::<Seq<char>>::empty() =~= strip(f.drop_last()));
        } else {
            assert(strip_from(seq![f.last()], 0) =~= seq![f.last()]);
            assert(strip(f.drop_last()) + seq![f.last()] =~= strip(f.drop_last()).push(f.last()));
        }
    }
}

//@unit src/whitespace.rs fn remove
//@rule R6_filter_join
//@rule closure_annot(c ;; &Character ;; bool)
//@rule R16(re:CS::new\([^()]*\)\.vt_chars_vec\(\) ;; vt_v)
//@rule R17(vt_p)
pub fn remove(s: &str, use_graphemes: bool) -> (res: String)
    ensures res@ == join_sep(strip(chars_of(s, use_graphemes)), Seq::<char>::empty()),
{
    let vt_v = CS::new(s, use_graphemes).vt_chars_vec();
    let vt_p = |c: &Character| -> (q: bool) ensures q == !ch_ws(c.str@) { !c.is_whitespace() };
    proof {
        reveal_strlit("");
        assert(""@ =~= Seq::<char>::empty());
        assert forall|bits: Seq<bool>| #[trigger] filt_ok(vt_v@, vt_p, bits) implies select(chv(vt_v@), bits) == strip(chv(vt_v@)) by {
            assert forall|k: int| 0 <= k < vt_v@.len() implies #[trigger] bits[k] == !ch_ws(chv(vt_v@)[k]) by {
                assert(vt_p.ensures((&vt_v@[k],), bits[k]));
            }
            lemma_select_is_strip(chv(vt_v@), bits);
        }
    }
    vt_filter_join(vt_v, vt_p, "")
}
//@end

//@unit src/whitespace.rs fn full
//@rule R6_filter_join
//@rule closure_annot(c ;; &Character ;; bool)
//@rule R16(re:CS::new\([^()]*\)\.vt_chars_vec\(\) ;; vt_v)
//@rule R17(vt_p)
pub fn full(s: &str, use_graphemes: bool) -> (res: String)
    ensures res@ == join_sep(strip(chars_of(s, use_graphemes)), seq![' ']),
{
    let vt_v = CS::new(s, use_graphemes).vt_chars_vec();
    let vt_p = |c: &Character| -> (q: bool) ensures q == !ch_ws(c.str@) { !c.is_whitespace() };
    proof {
        reveal_strlit(" ");
        assert(" "@ =~= seq![' ']);
        assert forall|bits: Seq<bool>| #[trigger] filt_ok(vt_v@, vt_p, bits) implies select(chv(vt_v@), bits) == strip(chv(vt_v@)) by {
            assert forall|k: int| 0 <= k < vt_v@.len() implies #[trigger] bits[k] == !ch_ws(chv(vt_v@)[k]) by {
                assert(vt_p.ensures((&vt_v@[k],), bits[k]));
            }
            lemma_select_is_strip(chv(vt_v@), bits);
        }
    }
    vt_filter_join(vt_v, vt_p, " ")
}
//@end
} // verus!
fn main() {}
