// C11 -- Character::is_whitespace = "all code points are White_Space" (the predicate every whitespace contract rests on)
use vstd::prelude::*;
use vstd::string::StringSliceAdditionalSpecFns;
verus! {
//@include specs/std_extra.rs
// ---------------------------------------------------------------- trusted prelude
/// Unicode White_Space of one code point (`char::is_whitespace`); its ASCII part is fixed by the standard:
/// U+0009..U+000D and U+0020.
pub uninterp spec fn char_ws(c: char) -> bool;
#[verifier::external_body]
pub broadcast proof fn axiom_ascii_ws(c: char)
    ensures (c as u32) < 128 ==> (#[trigger] char_ws(c) <==> (9 <= c as u32 <= 13 || c as u32 == 32)),
{}
pub open spec fn str_ws(s: Seq<char>) -> bool { forall|i: int| 0 <= i < s.len() ==> char_ws(#[trigger] s[i]) }

/// `s.chars().all(char::is_whitespace)` (R6)
#[verifier::external_body]
fn vt_all_chars_ws(s: &str) -> (r: bool) ensures r == str_ws(s@) { unimplemented!() }

/// std facts used when edited code takes a byte-level shortcut
pub assume_specification[ u8::is_ascii_whitespace ](b: &u8) -> (r: bool)
    ensures r == (*b == 9 || *b == 10 || *b == 12 || *b == 13 || *b == 32);   // WhatWG: no U+000B
/// `str::len` (number of UTF-8 bytes; vstd's own contract only covers ASCII strings) -- R11-style helper
#[verifier::external_body]
fn vt_str_len(s: &str) -> (r: usize) ensures r == s.spec_bytes().len() { s.len() }
/// a one-byte UTF-8 string is one ASCII code point with that value
#[verifier::external_body]
pub broadcast proof fn axiom_one_byte_str(s: &str)
    ensures #[trigger] s.spec_bytes().len() == 1 ==> s@.len() == 1 && (s@[0] as u32) < 128 && s@[0] as u32 == s.spec_bytes()[0] as u32,
{}

/// desugaring target of the one-element slice pattern `if let [b] = E` (rule R18); verified, not assumed
fn vt_single<T>(s: &[T]) -> (r: Option<&T>)
    ensures r.is_some() <==> s.len() == 1, r.is_some() ==> *r.unwrap() == s[0],
{
    if s.len() == 1 { Some(&s[0]) } else { None }
}
pub struct Character<'s> { pub str: &'s str }

//@unit src/unicode.rs fn is_whitespace nth=0
//@rule subst(s.chars().all(char::is_whitespace)=>vt_all_chars_ws(s))
//@rule R18
pub fn is_whitespace(s: &str) -> (r: bool)
    ensures r == str_ws(s@),
{
    broadcast use axiom_ascii_ws, axiom_one_byte_str;
    vt_all_chars_ws(s)
}
//@end

impl Character<'_> {
//@unit src/unicode.rs fn byte_len impl=^impl\sCharacter<'_>$
//@rule subst(self.str.len()=>vt_str_len(self.str))
    pub fn byte_len(&self) -> (r: usize)
        ensures r == self.str.spec_bytes().len(),
    {
        vt_str_len(self.str)
    }
//@end
//@unit src/unicode.rs fn is_ascii impl=^impl\sCharacter<'_>$
    pub fn is_ascii(&self) -> (r: bool)
        ensures r == (self.str.spec_bytes().len() == 1),
    {
        self.byte_len() == 1
    }
//@end
//@unit src/unicode.rs fn is_whitespace impl=^impl\sCharacter<'_>$
    pub fn is_whitespace(&self) -> (r: bool)
        // the character is whitespace iff ALL its code points are Unicode White_Space
        ensures r == str_ws(self.str@),
    {
        broadcast use axiom_ascii_ws, axiom_one_byte_str;
        is_whitespace(self.str)
    }
//@end
}
} // verus!
fn main() {}
