// C17 -- token_groups_to_sparse_coo_matrix: one entry per token, every index inside the declared size
use vstd::prelude::*;
verus! {
//@include specs/std_extra.rs
//@include specs/err.rs

// ---------------------------------------------------------------- trusted prelude
#[verifier::external_body]
#[verifier::reject_recursive_types(T)]
pub struct Array2<T> { _p: core::marker::PhantomData<T> }
#[verifier::external_body]
#[verifier::reject_recursive_types(T)]
pub struct Array1<T> { _p: core::marker::PhantomData<T> }
#[derive(Debug)]
pub struct ShapeError;
impl From<ShapeError> for AnyhowError {
    #[verifier::external_body]
    fn from(e: ShapeError) -> AnyhowError { AnyhowError }
}
pub uninterp spec fn a2_rows<T>(a: Array2<T>) -> int;
pub uninterp spec fn a2_cols<T>(a: Array2<T>) -> int;
pub uninterp spec fn a2_data<T>(a: Array2<T>) -> Seq<T>;
pub uninterp spec fn a1_data<T>(a: Array1<T>) -> Seq<T>;
impl<T> Array2<T> {
    /// ndarray: succeeds exactly when the vector has rows*cols elements; row-major data
    #[verifier::external_body]
    pub fn from_shape_vec(shape: (usize, usize), v: Vec<T>) -> (r: Result<Array2<T>, ShapeError>)
        ensures
            r.is_ok() <==> shape.0 * shape.1 == v.len(),
            r.is_ok() ==> a2_rows(r.unwrap()) == shape.0 && a2_cols(r.unwrap()) == shape.1 && a2_data(r.unwrap()) == v@,
    { unimplemented!() }
}
impl<T> Array1<T> {
    #[verifier::external_body]
    pub fn from_vec(v: Vec<T>) -> (r: Array1<T>) ensures a1_data(r) == v@ { unimplemented!() }
}

//@unit src/tokenization.rs enum TokenGroup
//@rule derive_only(Debug)
#[derive(Debug)]
pub enum TokenGroup {
    Empty(usize),
    Full(usize),
    Nested(Vec<TokenGroup>),
}
//@end
//@unit src/tokenization.rs enum GroupAggregation
//@rule derive_only(Debug ;; Clone ;; Copy ;; PartialEq ;; Eq)
#[derive(Clone, Copy, Debug, PartialEq, Eq)]
pub enum GroupAggregation {
    Mean,
    Sum,
}
//@end
impl vstd::std_specs::cmp::PartialEqSpecImpl for GroupAggregation {
    open spec fn obeys_eq_spec() -> bool { true }
    open spec fn eq_spec(&self, other: &GroupAggregation) -> bool { *self == *other }
}
//@unit src/tokenization.rs type Grouping
pub type Grouping = (Vec<TokenGroup>, GroupAggregation);
//@end
//@unit src/tokenization.rs struct SparseCoo
pub struct SparseCoo {
    pub indices: Array2<i32>,
    pub values: Array1<f32>,
    pub size: Vec<usize>,
    pub group_lengths: Vec<usize>,
}
//@end

/// number of tokens a (possibly nested) group covers -- the meaning of `TokenGroup::len`
pub open spec fn glen(g: TokenGroup) -> nat
    decreases g
{
    match g {
        TokenGroup::Empty(n) => n as nat,
        TokenGroup::Full(n) => n as nat,
        TokenGroup::Nested(v) => glens(v@, v@.len() as int),
    }
}
pub open spec fn glens(v: Seq<TokenGroup>, k: int) -> nat
    decreases v, k
{
    if k <= 0 || k > v.len() { 0 } else { glens(v, k - 1) + glen(v[k - 1]) }
}
pub open spec fn gtotal(v: Seq<TokenGroup>) -> nat { glens(v, v.len() as int) }
proof fn lemma_glens_mono(v: Seq<TokenGroup>, a: int, b: int)
    requires 0 <= a <= b <= v.len(),
    ensures glens(v, a) <= glens(v, b),
    decreases b - a
{
    if a < b { lemma_glens_mono(v, a, b - 1); }
}

impl TokenGroup {
    /// `TokenGroup::len` (recursive `.iter().map(|g| g.len()).sum()`) and `get_weights` (floats): assumed contracts
    #[verifier::external_body]
    pub fn len(&self) -> (r: usize) ensures r == glen(*self) { unimplemented!() }
    #[verifier::external_body]
    pub fn get_weights(&self, agg: GroupAggregation) -> (r: Vec<f32>) ensures r.len() == glen(*self) { unimplemented!() }
}

pub open spec fn max_of(s: Seq<usize>) -> usize
    decreases s.len()
{
    if s.len() == 0 { 0 } else if s.last() >= max_of(s.drop_last()) { s.last() } else { max_of(s.drop_last()) }
}
proof fn lemma_max_ge(s: Seq<usize>, k: int)
    requires 0 <= k < s.len(),
    ensures s[k] <= max_of(s),
    decreases s.len()
{
    if k < s.len() - 1 { lemma_max_ge(s.drop_last(), k); }
}
pub open spec fn sum_to(s: Seq<usize>, k: int) -> int
    decreases k
{
    if k <= 0 || k > s.len() { 0 } else { sum_to(s, k - 1) + s[k - 1] }
}
proof fn lemma_sum_mono(s: Seq<usize>, a: int, b: int)
    requires 0 <= a <= b <= s.len(),
    ensures sum_to(s, a) <= sum_to(s, b),
    decreases b - a
{
    if a < b { lemma_sum_mono(s, a, b - 1); }
}

// R6 idioms (std iterator adapters) and utils::accumulate
#[verifier::external_body]
fn vt_group_lengths(gs: &[&Grouping]) -> (r: Vec<usize>)
    ensures r.len() == gs.len(), forall|b: int| 0 <= b < gs.len() ==> #[trigger] r[b] == gs[b].0.len(),
{ unimplemented!() }
#[verifier::external_body]
fn vt_max_or0(l: &[usize]) -> (r: usize) ensures r == max_of(l@) { unimplemented!() }
#[verifier::external_body]
fn vt_sum(l: &[usize]) -> (r: usize)
    requires sum_to(l@, l.len() as int) <= usize::MAX,
    ensures r == sum_to(l@, l.len() as int),
{ unimplemented!() }
/// utils::accumulate: running sums
#[verifier::external_body]
fn accumulate(l: &[usize]) -> (r: Vec<usize>)
    requires sum_to(l@, l.len() as int) <= usize::MAX,
    ensures r.len() == l.len(), forall|k: int| 0 <= k < l.len() ==> #[trigger] r[k] == sum_to(l@, k + 1),
{ unimplemented!() }
#[verifier::external_body]
fn vt_fill<T: Copy>(v: &mut Vec<T>, a: usize, b: usize, x: T)
    requires a <= b <= old(v).len(),
    ensures final(v).len() == old(v).len(),
        forall|k: int| 0 <= k < old(v).len() ==> #[trigger] final(v)[k] == (if a <= k < b { x } else { old(v)[k] }),
{ unimplemented!() }
/// `v[a..b]` zipped with the i32 range c..d (the shorter one ends the fill)
#[verifier::external_body]
fn vt_fill_range(v: &mut Vec<i32>, a: usize, b: usize, c: i32, d: i32)
    requires a <= b <= old(v).len(),
    ensures final(v).len() == old(v).len(),
        forall|k: int| 0 <= k < old(v).len() ==> #[trigger] final(v)[k] == (if a <= k < b && k - a < d - c { (c + (k - a)) as i32 } else { old(v)[k] }),
{ unimplemented!() }
#[verifier::external_body]
fn vt_fill_from<T: Copy>(v: &mut Vec<T>, a: usize, b: usize, w: Vec<T>)
    requires a <= b <= old(v).len(),
    ensures final(v).len() == old(v).len(),
{ unimplemented!() }

// ---------------------------------------------------------------- specification
/// every entry written so far (columns 0..upto) has its three indices inside the declared size
pub open spec fn entries_ok(data: Seq<i32>, stride: int, upto: int, n: int, maxg: int, maxl: int) -> bool {
    forall|e: int| 0 <= e < upto ==>
        0 <= #[trigger] data[e] < n && 0 <= data[stride + e] < maxg && 0 <= data[2 * stride + e] < maxl
}
pub open spec fn group_counts(gs: Seq<&Grouping>) -> Seq<usize> { gs.map(|b: int, g: &Grouping| g.0.len()) }

//@unit src/tokenization.rs fn token_groups_to_sparse_coo_matrix
//@rule R4
//@rule R6_sparse(group_lengths)
//@rule R1
#[verifier::loop_isolation(false)]
pub fn token_groups_to_sparse_coo_matrix(
    groupings: &[&Grouping],
    lengths: &[usize],
) -> (res: VtResult<SparseCoo>)
    requires
        groupings.len() == lengths.len(),
        // the groupings come from tokenizer outputs: their nested group lengths sum to the sequence lengths (C17, process_input)
        forall|b: int| 0 <= b < groupings.len() ==> gtotal((#[trigger] groupings[b]).0@) == lengths[b],
        // domain (machine arithmetic): the index matrix is addressable and every index fits i32
        3 * sum_to(lengths@, lengths.len() as int) <= usize::MAX,
        groupings.len() <= i32::MAX, max_of(lengths@) <= i32::MAX, max_of(group_counts(groupings@)) <= i32::MAX,
    ensures
        res.is_ok(),
        // declared size = [batch, largest group count, largest sequence length]
        res.unwrap().size@ == seq![groupings.len(), max_of(group_counts(groupings@)), max_of(lengths@)],
        // one column per token, three rows
        a2_rows(res.unwrap().indices) == 3, a2_cols(res.unwrap().indices) == sum_to(lengths@, lengths.len() as int),
        // every index lies inside the declared size
        entries_ok(a2_data(res.unwrap().indices), a2_cols(res.unwrap().indices), a2_cols(res.unwrap().indices),
                   groupings.len() as int, max_of(group_counts(groupings@)) as int, max_of(lengths@) as int),
{
    assert!(groupings.len() == lengths.len());
    let group_lengths: Vec<_> = vt_group_lengths(groupings);
    let max_group_length = vt_max_or0(&group_lengths);
    let max_length = vt_max_or0(lengths);
    let cum_lengths = accumulate(lengths);
    let stride = vt_sum(lengths);
    let mut indices = vec![0; 3 * stride];
    let mut values = vec![1.0; stride];
    let mut offset = 0;
    let ghost n = groupings.len() as int;
    let ghost counts = group_counts(groupings@);
    proof { assert(group_lengths@ =~= counts); }
    for batch_index in 0..groupings.len()
        invariant
            n == groupings.len(), n == lengths.len(), n <= i32::MAX, counts == group_counts(groupings@),
            forall|b: int| 0 <= b < n ==> gtotal((#[trigger] groupings[b]).0@) == lengths[b],
            stride == sum_to(lengths@, n), 3 * stride <= usize::MAX,
            max_length == max_of(lengths@), max_length <= i32::MAX, max_group_length == max_of(counts), max_group_length <= i32::MAX,
            cum_lengths.len() == n, forall|k: int| 0 <= k < n ==> #[trigger] cum_lengths[k] == sum_to(lengths@, k + 1),
            indices.len() == 3 * stride, values.len() == stride,
            offset == sum_to(lengths@, batch_index as int),
            entries_ok(indices@, stride as int, offset as int, n, max_group_length as int, max_length as int),
    {
        let groups = &groupings[batch_index].0;
        let agg = &groupings[batch_index].1;
        let mut group_offset = 0;
        let ghost base = offset as int;
        let ghost gsq = groups@;
        proof {
            lemma_sum_mono(lengths@, batch_index as int + 1, n);
            lemma_max_ge(lengths@, batch_index as int);
            assert(counts[batch_index as int] == gsq.len());
            lemma_max_ge(counts, batch_index as int);
        }
        for group_idx in 0..groups.len()
            invariant
                n == groupings.len(), n == lengths.len(), n <= i32::MAX, 0 <= batch_index < n,
                gsq == groups@, gtotal(gsq) == lengths[batch_index as int], gsq.len() <= max_group_length,
                lengths[batch_index as int] <= max_length, max_length <= i32::MAX, max_group_length <= i32::MAX,
                stride == sum_to(lengths@, n), 3 * stride <= usize::MAX,
                base == sum_to(lengths@, batch_index as int), base + lengths[batch_index as int] <= stride,
                indices.len() == 3 * stride, values.len() == stride,
                offset == base + glens(gsq, group_idx as int),
                group_offset == glens(gsq, group_idx as int),
                entries_ok(indices@, stride as int, offset as int, n, max_group_length as int, max_length as int),
        { let group = &groups[group_idx];
            proof {
                lemma_glens_mono(gsq, group_idx as int + 1, gsq.len() as int);
                assert(glens(gsq, group_idx as int + 1) == glens(gsq, group_idx as int) + glen(gsq[group_idx as int]));
            }
            let group_len = group.len();
            let ghost i0 = indices@;
            let ghost off = offset as int;
            // batch indices
            vt_fill(&mut indices, offset, offset + group_len, batch_index as i32);
            // target group indices
            vt_fill(&mut indices, stride + offset, stride + offset + group_len, group_idx as i32);
            // current ungrouped indices
            vt_fill_range(&mut indices, 2 * stride + offset, 2 * stride + offset + group_len, group_offset, group_offset + group_len as i32);
            proof {
                let st = stride as int;
                assert forall|e: int| 0 <= e < off + group_len implies
                    0 <= #[trigger] indices@[e] < n && 0 <= indices@[st + e] < max_group_length && 0 <= indices@[2 * st + e] < max_length by {
                    if e < off {
                        assert(indices@[e] == i0[e] && indices@[st + e] == i0[st + e] && indices@[2 * st + e] == i0[2 * st + e]);
                    } else {
                        assert(indices@[e] == batch_index as i32);
                        assert(indices@[st + e] == group_idx as i32);
                        assert(indices@[2 * st + e] == (group_offset + (e - off)) as i32);
                    }
                }
            }
            if *agg == GroupAggregation::Mean {
                let weights = group.get_weights(*agg);
                assert!(weights.len() == group_len);
                vt_fill_from(&mut values, offset, offset + group_len, weights);
            }
            offset += group_len;
            group_offset += group_len as i32;
        }
        assert!(offset == cum_lengths[batch_index]);
    }
    let size = vec![groupings.len(), max_group_length, max_length];
    Ok(SparseCoo {
        indices: Array2::from_shape_vec((3, stride), indices)?,
        values: Array1::from_vec(values),
        size,
        group_lengths,
    })
}
//@end
} // verus!
fn main() {}
