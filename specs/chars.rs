// Trusted character-level prelude shared by the string-level contracts (C10, C11, C12, C18).
// `CharString`/`Character` are external here: `CharString::new(s, g)` is *assumed* to split `s` into the
// sequence `chars_of(s, g)` of character texts (code points or grapheme clusters); `Character::is_whitespace`
// is the uninterpreted predicate `ch_ws` of the character's text; `Character == Character` is text equality.
// (The index arithmetic of the real CharString is verified separately in c16_windows.rs.)

pub uninterp spec fn ch_ws(s: Seq<char>) -> bool;
pub open spec fn space() -> Seq<char> { seq![' '] }
#[verifier::external_body]
pub proof fn axiom_space_ws() ensures ch_ws(space()) {}

pub struct Character<'s> { pub str: &'s str }
impl<'s> Character<'s> {
    #[verifier::external_body]
    pub fn is_whitespace(&self) -> (r: bool) ensures r == ch_ws(self.str@) { unimplemented!() }
}
impl<'s> vstd::std_specs::cmp::PartialEqSpecImpl for Character<'s> {
    open spec fn obeys_eq_spec() -> bool { true }
    open spec fn eq_spec(&self, other: &Character<'s>) -> bool { self.str@ == other.str@ }
}
impl<'s> PartialEq<Self> for Character<'s> {
    #[verifier::external_body]
    fn eq(&self, other: &Self) -> (r: bool) { self.str == other.str }
}
impl<'s> core::fmt::Display for Character<'s> {
    #[verifier::external_body]
    fn fmt(&self, f: &mut core::fmt::Formatter<'_>) -> core::fmt::Result { unimplemented!() }
}
pub open spec fn chv(v: Seq<Character>) -> Seq<Seq<char>> { v.map(|i: int, c: Character| c.str@) }
pub uninterp spec fn chars_of(s: &str, g: bool) -> Seq<Seq<char>>;

pub struct CharString<'a> { pub str: &'a str, pub g: bool }
pub type CS<'a> = CharString<'a>;
impl<'s> CharString<'s> {
    pub closed spec fn view(&self) -> Seq<Seq<char>> { chars_of(self.str, self.g) }
    #[verifier::external_body]
    pub fn new(str: &'s str, use_graphemes: bool) -> (r: CharString<'s>) ensures r.view() == chars_of(str, use_graphemes), r.str == str { unimplemented!() }
    #[verifier::external_body]
    pub fn len(&self) -> (r: usize) ensures r == self.view().len() { unimplemented!() }
    #[verifier::external_body]
    pub fn vt_chars_vec(&self) -> (r: Vec<Character<'s>>) ensures chv(r@) == self.view() { unimplemented!() }
}

