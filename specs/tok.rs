// Shared tokenizer prelude: Vocab / BaseTokenizer (extracted units) and the trusted string / hash-map axioms.
// ---------------------------------------------------------------- trusted prelude
pub struct Regex;               // external type (regex crate), never inspected by the units

pub assume_specification<T: Copy>[ Option::<&T>::copied ](o: Option<&T>) -> (r: Option<T>)
    ensures r == match o { Some(x) => Some(*x), None => None };

/// byte spelling of a token (`ToBytes::to_bytes`), as a pure function of the token
pub uninterp spec fn tok_bytes_ref<T: ?Sized>(t: &T) -> Seq<u8>;
pub open spec fn tok_bytes<T>(t: T) -> Seq<u8> { tok_bytes_ref(&t) }

//@unit src/tokenization.rs trait ToBytes
pub trait ToBytes {
    fn to_bytes(&self) -> (r: Vec<u8>)
        ensures r@ == tok_bytes_ref(self);
}
//@end

/// Assumed of every `FromBytes` impl of the crate (char, String, Vec<u8>): inverse of `to_bytes`, defined on all images
//@unit src/tokenization.rs trait FromBytes
//@rule R4
pub trait FromBytes: Sized {
    fn from_bytes(bytes: &[u8]) -> (r: VtResult<Self>)
        ensures
            r.is_ok() ==> tok_bytes(r.unwrap()) == bytes@,
            (exists|t: Self| tok_bytes(t) == bytes@) ==> r.is_ok();
}
//@end
#[verifier::external_body]
pub proof fn axiom_tok_bytes_injective<T>(a: T, b: T)
    ensures tok_bytes(a) == tok_bytes(b) ==> a == b
{}

/// UTF-8 bytes of an owned string (the meaning of `String::as_bytes`)
pub open spec fn string_bytes(s: String) -> Seq<u8> { s@.as_bytes_spec() }
pub uninterp spec fn chars_utf8(s: Seq<char>) -> Seq<u8>;
pub trait VtBytesSpec { spec fn as_bytes_spec(self) -> Seq<u8>; }
impl VtBytesSpec for Seq<char> { open spec fn as_bytes_spec(self) -> Seq<u8> { chars_utf8(self) } }
/// the spelling of a String token is its UTF-8 encoding
#[verifier::external_body]
pub proof fn axiom_string_tok_bytes(s: String)
    ensures tok_bytes(s) == string_bytes(s)
{}

pub assume_specification[ String::as_bytes ](s: &String) -> (r: &[u8])
    ensures r@ == string_bytes(*s);
pub assume_specification<T: Clone>[ <[T]>::to_vec ](s: &[T]) -> (r: Vec<T>)
    ensures r@ == s@;   // element-wise clone; used for u8 only

impl ToBytes for String {
//@unit src/tokenization.rs fn to_bytes impl=^impl\sToBytes\sfor\sString$
    fn to_bytes(&self) -> Vec<u8> {
        proof { axiom_string_tok_bytes(*self); }
        self.as_bytes().to_vec()
    }
//@end
}

// `&str` bytes: vstd's `spec_bytes` is the UTF-8 encoding of the view; tie it to chars_utf8
#[verifier::external_body]
pub proof fn axiom_str_bytes(s: &str)
    ensures s.spec_bytes() == chars_utf8(s@)
{}

// UTF-8 encoding is injective; a String is determined by its characters
#[verifier::external_body]
pub proof fn axiom_utf8_injective(a: Seq<char>, b: Seq<char>)
    ensures chars_utf8(a) == chars_utf8(b) ==> a == b
{}
#[verifier::external_body]
pub proof fn axiom_string_ext(a: String, b: String)
    ensures a@ == b@ ==> a == b
{}

// lookups through `Borrow`: HashMap<String,_>::get(&str) and HashMap<Vec<u8>,_>::get(&[u8])
#[verifier::external_body]
pub proof fn axiom_borrow_string_str(m: Map<String, u32>, k: &str)
    ensures
        contains_borrowed_key(m, k) <==> exists|key: String| key@ == k@ && #[trigger] m.contains_key(key),
        forall|v: u32| maps_borrowed_key_to_value(m, k, v) <==> exists|key: String| key@ == k@ && #[trigger] m.contains_key(key) && m[key] == v,
{}
#[verifier::external_body]
pub proof fn axiom_borrow_string_string(m: Map<String, u32>, k: &String)
    ensures
        contains_borrowed_key(m, k) <==> m.contains_key(*k),
        forall|v: u32| maps_borrowed_key_to_value(m, k, v) <==> m.contains_key(*k) && m[*k] == v,
{}
#[verifier::external_body]
pub proof fn axiom_borrow_vec_slice(m: Map<Vec<u8>, u32>, k: &[u8])
    ensures
        contains_borrowed_key(m, k) <==> exists|key: Vec<u8>| key@ == k@ && #[trigger] m.contains_key(key),
        forall|v: u32| maps_borrowed_key_to_value(m, k, v) <==> exists|key: Vec<u8>| key@ == k@ && #[trigger] m.contains_key(key) && m[key] == v,
{}


//@unit src/tokenization.rs struct Vocab
pub struct Vocab<Token> {
    vocab: HashMap<Token, u32>,
    reverse_vocab: HashMap<u32, Token>,
}
//@end

//@unit src/tokenization.rs struct BaseTokenizer
pub struct BaseTokenizer<Config = (), State = ()> {
    prefix_token_ids: Vec<u32>,
    suffix_token_ids: Vec<u32>,
    pad_token_id: u32,
    state: State,
    config: Config,
    special_vocab: Vocab<String>,
    special_token_pattern: Option<Regex>,
}
//@end


impl<Token> Vocab<Token> {
    pub closed spec fn fwd(&self) -> Map<Token, u32> { self.vocab@ }
    pub closed spec fn rev(&self) -> Map<u32, Token> { self.reverse_vocab@ }
    /// the two maps are mutually inverse (established by `Vocab::build`, assumed)
    pub open spec fn inverse(&self) -> bool {
        &&& forall|t: Token| #[trigger] self.fwd().contains_key(t) ==> self.rev().contains_key(self.fwd()[t]) && self.rev()[self.fwd()[t]] == t
        &&& forall|id: u32| #[trigger] self.rev().contains_key(id) ==> self.fwd().contains_key(self.rev()[id]) && self.fwd()[self.rev()[id]] == id
    }
}

impl<Token> Vocab<Token>
where
    Token: PartialEq + Eq + Hash + Clone,
{
//@unit src/tokenization.rs fn len impl=^impl<Token>Vocab<Token>where\sToken:PartialEq\+Eq\+Hash\+Clone,$
    fn len(&self) -> (r: usize)
        requires obeys_key_model::<Token>(),
        ensures r == self.fwd().len(),
    {
        self.vocab.len()
    }
//@end

//@unit src/tokenization.rs fn token_to_id impl=^impl<Token>Vocab<Token>where\sToken:PartialEq\+Eq\+Hash\+Clone,$
    fn token_to_id<K>(&self, token: &K) -> (r: Option<u32>)
    where
        K: Hash + Eq + ?Sized,
        Token: Borrow<K>,
        requires obeys_key_model::<Token>(),
        ensures (match r {
            Some(id) => maps_borrowed_key_to_value(self.fwd(), token, id),
            None => !contains_borrowed_key(self.fwd(), token),
        }),
    {
        self.vocab.get(token).copied()
    }
//@end

//@unit src/tokenization.rs fn id_to_token impl=^impl<Token>Vocab<Token>where\sToken:PartialEq\+Eq\+Hash\+Clone,$
    fn id_to_token(&self, id: &u32) -> (r: Option<&Token>)
        ensures (match r {
            Some(t) => self.rev().contains_key(*id) && *t == self.rev()[*id],
            None => !self.rev().contains_key(*id),
        }),
    {
        self.reverse_vocab.get(id)
    }
//@end
}

