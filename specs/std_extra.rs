// Precise contracts for std functions that are not used by the pinned units but are likely to appear in edited code
// (an edit that uses an unspecified std function would otherwise end "undecided" instead of being verified).
/// `str::chars().count()`: the number of code points
pub assume_specification<'a>[ <core::str::Chars<'a> as Iterator>::count ](c: core::str::Chars<'a>) -> (r: usize)
    ensures r == vstd::std_specs::iter::IteratorSpec::remaining(&c).len();
/// `usize::next_multiple_of` (std): the smallest multiple of `m` that is >= x; panics for m == 0 and on overflow
pub assume_specification[ usize::next_multiple_of ](x: usize, m: usize) -> (r: usize)
    requires m > 0, x + m <= usize::MAX,
    ensures r >= x, r < x + m, r % m == 0;
/// `usize::from(bool)`: vstd accepts the call but leaves the result uninterpreted
pub assume_specification[ <usize as From<bool>>::from ](b: bool) -> (r: usize)
    ensures r == (if b { 1usize } else { 0usize });
/// `u64::rotate_left` / `rotate_right`: bit rotations, left uninterpreted (a total function of its arguments)
pub uninterp spec fn vt_rotl64(x: u64, n: u32) -> u64;
pub uninterp spec fn vt_rotr64(x: u64, n: u32) -> u64;
pub assume_specification[ u64::rotate_left ](x: u64, n: u32) -> (r: u64)
    ensures r == vt_rotl64(x, n);
pub assume_specification[ u64::rotate_right ](x: u64, n: u32) -> (r: u64)
    ensures r == vt_rotr64(x, n);
