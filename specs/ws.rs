// Whitespace-level specification vocabulary shared by C10 / C11 / C14-adjacent contracts (pure spec + lemmas).
//   is_clean(s)      : no leading / trailing / adjacent whitespace characters, every whitespace character is " "
//   strip_from    : the non-whitespace characters from index k on;  strip(s) = strip_from(s, 0)
//   flat          : concatenation of the character texts (the string a character sequence spells)
pub open spec fn is_clean(s: Seq<Seq<char>>) -> bool {
    &&& forall|k: int| 0 <= k < s.len() && ch_ws(#[trigger] s[k]) ==> s[k] == space()
    &&& (s.len() > 0 ==> !ch_ws(s[0]) && !ch_ws(s[s.len() - 1]))
    &&& forall|k: int| 0 <= k < s.len() - 1 && ch_ws(#[trigger] s[k]) ==> !ch_ws(s[k + 1])
}
pub open spec fn strip_from(s: Seq<Seq<char>>, k: int) -> Seq<Seq<char>>
    decreases s.len() - k
{
    if k < 0 || k >= s.len() { Seq::empty() }
    else if ch_ws(s[k]) { strip_from(s, k + 1) }
    else { seq![s[k]] + strip_from(s, k + 1) }
}

proof fn lemma_strip_nonempty_if_nonws(s: Seq<Seq<char>>, k: int, w: int)
    requires 0 <= k <= w < s.len(), !ch_ws(s[w]),
    ensures strip_from(s, k).len() > 0,
    decreases w - k
{
    if k < w { lemma_strip_nonempty_if_nonws(s, k + 1, w); }
}

pub open spec fn flat(s: Seq<Seq<char>>) -> Seq<char>
    decreases s.len()
{
    if s.len() == 0 { Seq::empty() } else { flat(s.drop_last()) + s.last() }
}
proof fn lemma_flat_append(a: Seq<Seq<char>>, b: Seq<Seq<char>>)
    ensures flat(a + b) == flat(a) + flat(b)
    decreases b.len()
{
    if b.len() == 0 {
        assert(a + b =~= a);
        assert(flat(b) =~= Seq::<char>::empty());
        assert(flat(a) + flat(b) =~= flat(a));
    } else {
        assert((a + b).drop_last() =~= a + b.drop_last());
        assert((a + b).last() == b.last());
        lemma_flat_append(a, b.drop_last());
        assert(flat(a + b) == flat(a + b.drop_last()) + b.last());
        assert(flat(a) + flat(b.drop_last()) + b.last() =~= flat(a) + (flat(b.drop_last()) + b.last()));
    }
}

pub open spec fn strip(s: Seq<Seq<char>>) -> Seq<Seq<char>> { strip_from(s, 0) }
/// the precondition of whitespace::operations(from, to): both clean, same non-whitespace characters (used by C10 and C14)
pub open spec fn ops_pre(f: Seq<Seq<char>>, t: Seq<Seq<char>>) -> bool {
    is_clean(f) && is_clean(t) && strip_from(f, 0) == strip_from(t, 0)
}

proof fn lemma_strip_append(a: Seq<Seq<char>>, b: Seq<Seq<char>>, k: int)
    requires 0 <= k <= a.len(),
    ensures strip_from(a + b, k) == strip_from(a, k) + strip_from(b, 0),
    decreases a.len() - k
{
    if k == a.len() {
        assert(strip_from(a, k) =~= Seq::<Seq<char>>::empty());
        lemma_strip_shift(a, b, 0);
        assert(Seq::<Seq<char>>::empty() + strip_from(b, 0) =~= strip_from(b, 0));
    } else {
        lemma_strip_append(a, b, k + 1);
        assert((a + b)[k] == a[k]);
        if !ch_ws(a[k]) {
            assert(seq![a[k]] + (strip_from(a, k + 1) + strip_from(b, 0)) =~= (seq![a[k]] + strip_from(a, k + 1)) + strip_from(b, 0));
        }
    }
}
proof fn lemma_strip_shift(a: Seq<Seq<char>>, b: Seq<Seq<char>>, j: int)
    requires 0 <= j <= b.len(),
    ensures strip_from(a + b, a.len() + j) == strip_from(b, j),
    decreases b.len() - j
{
    if j < b.len() {
        lemma_strip_shift(a, b, j + 1);
        assert((a + b)[a.len() + j] == b[j]);
    }
}
