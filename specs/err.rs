// error values are opaque to every property: only Ok / Err matters (rule R4)
#[derive(Debug)]
pub struct AnyhowError;
#[verifier::external_body]
fn vt_anyhow() -> AnyhowError { AnyhowError }
pub type VtResult<T> = Result<T, AnyhowError>;
