// Statement-level oracles (bounded stand-ins) for C06, C10, C11, C16, C18 -- included into `mod probes` of rac/mod.rs.
// Each `search_all` returns the first failing input of every failing class and the number of cases run.

/// run `f` in a thread; None if it does not finish within 5 s (non-termination is observable), Err on panic
fn with_deadline<T: Send + 'static>(f: impl FnOnce() -> T + Send + 'static) -> Option<Result<T, ()>> {
    let (tx, rx) = std::sync::mpsc::channel();
    std::thread::spawn(move || {
        let r = std::panic::catch_unwind(std::panic::AssertUnwindSafe(f)).map_err(|_| ());
        tx.send(r).ok();
    });
    rx.recv_timeout(std::time::Duration::from_secs(5)).ok()
}

fn all_texts(pieces: &[&str], max_len: usize) -> Vec<String> {
    let mut texts = vec![String::new()];
    let mut frontier = vec![String::new()];
    for _ in 0..max_len {
        let mut next = vec![];
        for t in &frontier { for a in pieces { next.push(format!("{t}{a}")); } }
        texts.extend(next.iter().cloned());
        frontier = next;
    }
    texts
}

/// the characters of a text, computed independently of CharString
fn chars_ref(s: &str, g: bool) -> Vec<&str> {
    use unicode_segmentation::UnicodeSegmentation;
    if g { s.graphemes(true).collect() } else { s.char_indices().map(|(i, c)| &s[i..i + c.len_utf8()]).collect() }
}
fn is_ws(c: &str) -> bool { c.chars().all(char::is_whitespace) }
/// quantifier of C10 / C11 in grapheme mode: no cluster mixes whitespace with non-whitespace code points
fn unmixed(s: &str, g: bool) -> bool {
    chars_ref(s, g).iter().all(|c| c.chars().all(char::is_whitespace) || !c.chars().any(char::is_whitespace))
}
fn non_ws(s: &str, g: bool) -> Vec<&str> { chars_ref(s, g).into_iter().filter(|c| !is_ws(c)).collect() }

// ------------------------------------------------------------------------------- C16
mod c16 {
    use super::*;
    use crate::windows::{windows, WindowConfig};

    fn offsets(s: &str, g: bool) -> Vec<usize> {
        let mut o = vec![0];
        for c in chars_ref(s, g) { o.push(o.last().unwrap() + c.len()); }
        o
    }
    /// kind 0: character windows, 1: byte windows, 2: full
    pub fn check(s: &str, kind: usize, max: usize, ctx: usize, g: bool) -> Result<(), String> {
        let what = format!("windows({s:?}, kind={kind}, max={max}, context={ctx}, graphemes={g})");
        let st = s.to_string();
        let r = with_deadline(move || {
            let cfg = match kind { 0 => WindowConfig::Character(max, ctx, g), 1 => WindowConfig::Bytes(max, ctx, g), _ => WindowConfig::Full(g) };
            windows(&st, &cfg).map(|ws| ws.iter().map(|w| (w.boundaries(), w.byte_boundaries(), w.str.to_string())).collect::<Vec<_>>()).map_err(|e| e.to_string())
        });
        let res = match r { None => return Err(format!("{what} does not terminate (no result within 5 s)")), Some(Err(())) => return Err(format!("{what} panics")), Some(Ok(x)) => x };
        let off = offsets(s, g);
        let n = off.len() - 1;
        let widest = (0..n).map(|i| off[i + 1] - off[i]).max().unwrap_or(0);
        let ws = match res {
            Err(e) => {
                // an error is only admissible for an impossible configuration or a character that cannot fit
                let impossible = kind != 2 && max <= 2 * ctx;
                let cannot_fit = kind == 1 && widest + 2 * ctx > max;
                if impossible || cannot_fit { return Ok(()); }
                return Err(format!("{what} failed ({e}) although the configuration is possible and every character fits"));
            }
            Ok(ws) => ws,
        };
        if ws.is_empty() { return Err(format!("{what} returned no window for a non-empty text")); }
        let (mut prev, mut prev_b) = (0usize, 0usize);
        let mut concat = String::new();
        for ((cs, w0, w1, ce), (bcs, bw0, bw1, bce), text) in &ws {
            if *w0 != prev { return Err(format!("{what}: a window starts at {w0}, the previous ended at {prev}")); }
            if w0 >= w1 { return Err(format!("{what}: empty window [{w0},{w1})")); }
            if !(cs <= w0 && w1 <= ce && *ce <= n) { return Err(format!("{what}: context [{cs},{ce}) does not contain window [{w0},{w1}) inside the text of {n} characters")); }
            if (*bcs, *bw0, *bw1, *bce) != (off[*cs], off[*w0], off[*w1], off[*ce]) {
                return Err(format!("{what}: byte boundaries {:?} do not denote the character boundaries {:?}", (bcs, bw0, bw1, bce), (cs, w0, w1, ce)));
            }
            if kind == 0 && ce - cs > max { return Err(format!("{what}: context of {} characters exceeds {max}", ce - cs)); }
            if kind == 1 && bce - bcs > max { return Err(format!("{what}: context of {} bytes exceeds {max}", bce - bcs)); }
            if *bw0 != prev_b { return Err(format!("{what}: byte window starts at {bw0}, the previous ended at {prev_b}")); }
            if text != &s[*bcs..*bce] { return Err(format!("{what}: reported string {text:?} is not the context slice {:?}", &s[*bcs..*bce])); }
            concat.push_str(&s[*bw0..*bw1]);
            prev = *w1;
            prev_b = *bw1;
        }
        if prev != n || prev_b != s.len() { return Err(format!("{what}: the last window ends at character {prev} / byte {prev_b} of {n} / {}", s.len())); }
        if concat != s { return Err(format!("{what}: the window byte ranges give {concat:?}")); }
        if kind == 2 && ws.len() != 1 { return Err(format!("{what}: {} windows in full mode", ws.len())); }
        Ok(())
    }
    pub fn replay(input: &Value) -> Result<(), String> {
        check(input["text"].as_str().unwrap_or("a"), input["kind"].as_u64().unwrap_or(0) as usize, input["max"].as_u64().unwrap_or(4) as usize,
              input["context"].as_u64().unwrap_or(1) as usize, input["graphemes"].as_bool().unwrap_or(true))
    }
    /// BOUND: non-empty texts of at most 5 pieces (all with at most 3 code points, every 29th longer one) from {a, U+00E4, U+20AC, U+1F600, e+U+0301, CRLF} x 3 window kinds x max in 1..=9 x
    /// context in 0..=3 x graphemes
    pub fn search_all() -> (Vec<(Value, String, String)>, usize) {
        let texts = all_texts(&["a", "\u{e4}", "\u{20ac}", "\u{1f600}", "e\u{301}", "\r\n"], 5);
        let mut found: Vec<(Value, String, String)> = vec![];
        let mut cases = 0usize;
        for (k, t) in texts.iter().enumerate() {
            if t.is_empty() || (t.chars().count() > 3 && k % 29 != 0) { continue; }
            for g in [true, false] { for kind in 0..3usize { for max in 1..=9usize { for ctx in 0..=3usize {
                if kind == 2 && (max, ctx) != (1, 0) { continue; }
                cases += 1;
                if let Err(e) = check(t, kind, max, ctx, g) {
                    let class = ["char", "byte", "full"][kind];
                    if !found.iter().any(|(_, _, c)| c == class) {
                        found.push((json!({"text": t, "kind": kind, "max": max, "context": ctx, "graphemes": g}), e, class.to_string()));
                    }
                }
            } } } }
        }
        (found, cases)
    }
}

// ------------------------------------------------------------------------------- C18
mod c18 {
    use super::*;
    use crate::edit::edited_words;
    use crate::text::match_words;

    fn lcs(a: &[&str], b: &[&str], eq: &dyn Fn(&str, &str) -> bool) -> usize {
        let mut d = vec![vec![0usize; b.len() + 1]; a.len() + 1];
        for i in 1..=a.len() { for j in 1..=b.len() {
            d[i][j] = if eq(a[i - 1], b[j - 1]) { d[i - 1][j - 1] + 1 } else { d[i - 1][j].max(d[i][j - 1]) };
        } }
        d[a.len()][b.len()]
    }
    pub fn check(a: &str, b: &str, ic: bool) -> Result<(), String> {
        // "whitespace-separated words": ASCII or Unicode whitespace, but the SAME splitter for both texts
        let e0 = check_with(a, b, ic, false);
        if e0.is_ok() { return e0; }
        let e1 = check_with(a, b, ic, true);
        if e1.is_ok() { return e1; }
        e0
    }
    fn check_with(a: &str, b: &str, ic: bool, unicode: bool) -> Result<(), String> {
        let what = format!("match_words({a:?}, {b:?}, ignore_case={ic})");
        let (a2, b2) = (a.to_string(), b.to_string());
        let r = std::panic::catch_unwind(move || match_words(&a2, &b2, ic));
        let (pairs, na, nb) = match r { Err(_) => return Err(format!("{what} panics")), Ok(x) => x };
        let wa: Vec<&str> = if unicode { a.split_whitespace().collect() } else { a.split_ascii_whitespace().collect() };
        let wb: Vec<&str> = if unicode { b.split_whitespace().collect() } else { b.split_ascii_whitespace().collect() };
        if (na, nb) != (wa.len(), wb.len()) { return Err(format!("{what}: word counts ({na}, {nb}), the texts have ({}, {}) whitespace-separated words", wa.len(), wb.len())); }
        let eq = move |x: &str, y: &str| if ic { x.to_lowercase() == y.to_lowercase() } else { x == y };
        for w in pairs.windows(2) { if !(w[0].0 < w[1].0 && w[0].1 < w[1].1) { return Err(format!("{what}: pairs {pairs:?} are not strictly increasing")); } }
        for &(i, j) in &pairs { if i >= wa.len() || j >= wb.len() || !eq(wa[i], wb[j]) { return Err(format!("{what}: pair ({i},{j}) does not match equal words")); } }
        let l = lcs(&wa, &wb, &eq);
        if pairs.len() != l { return Err(format!("{what}: {} pairs, a longest common subsequence has {l}", pairs.len())); }
        if !ic {
            let (ea, eb) = edited_words(a, b);
            let ma: std::collections::HashSet<usize> = pairs.iter().map(|p| p.0).collect();
            let mb: std::collections::HashSet<usize> = pairs.iter().map(|p| p.1).collect();
            let want_a: std::collections::HashSet<usize> = (0..wa.len()).filter(|i| !ma.contains(i)).collect();
            let want_b: std::collections::HashSet<usize> = (0..wb.len()).filter(|i| !mb.contains(i)).collect();
            if ea != want_a || eb != want_b { return Err(format!("edited_words({a:?}, {b:?}) = ({ea:?}, {eb:?}), the complement of the matching {pairs:?} is ({want_a:?}, {want_b:?})")); }
        }
        Ok(())
    }
    pub fn replay(input: &Value) -> Result<(), String> {
        check(input["a"].as_str().unwrap_or(""), input["b"].as_str().unwrap_or(""), input["ignore_case"].as_bool().unwrap_or(false))
    }
    /// BOUND: pairs of sentences of at most 4 words from {a, A, b, ab, U+0130, i+U+0307, a Greek word ending in capital sigma and its lower-case spelling} (single ASCII spaces; also with the first
    /// separator replaced by U+00A0 in both texts / by U+2003 in the first) x ignore_case
    pub fn search_all() -> (Vec<(Value, String, String)>, usize) {
        let mut sents = vec![String::new()];
        let mut frontier = vec![String::new()];
        for _ in 0..4 {
            let mut next = vec![];
            for s in &frontier { for w in ["a", "A", "b", "ab", "\u{130}", "i\u{307}", "\u{39f}\u{394}\u{39f}\u{3a3}", "\u{3bf}\u{3b4}\u{3bf}\u{3c2}"] { next.push(if s.is_empty() { w.to_string() } else { format!("{s} {w}") }); } }
            sents.extend(next.iter().cloned());
            frontier = next;
        }
        let mut found: Vec<(Value, String, String)> = vec![];
        let mut cases = 0usize;
        for (i, a) in sents.iter().enumerate() { for (j, b) in sents.iter().enumerate() {
            let short = |x: &str| x.split(' ').count() <= 2;
            if (i * 31 + j) % 1499 != 0 && !(short(a) && short(b)) { continue; }
            // the same pair with its first separators replaced by a non-ASCII whitespace (both texts, or only the first)
            let variants = [(a.clone(), b.clone()), (a.replacen(' ', "\u{a0}", 1), b.replacen(' ', "\u{a0}", 1)), (a.replacen(' ', "\u{2003}", 1), b.clone())];
            for (va, vb) in &variants { for ic in [false, true] {
                cases += 1;
                if let Err(e) = check(va, vb, ic) {
                    if found.is_empty() { found.push((json!({"a": va, "b": vb, "ignore_case": ic}), e, "match".to_string())); }
                }
            } }
        } }
        (found, cases)
    }
}

// ------------------------------------------------------------------------------- C10
mod c10 {
    use super::*;
    use crate::whitespace::{operations, repair, Operation};

    fn is_clean(s: &str, g: bool) -> bool {
        let c = chars_ref(s, g);
        c.iter().all(|x| !is_ws(x) || *x == " ") && c.first().map_or(true, |x| !is_ws(x)) && c.last().map_or(true, |x| !is_ws(x))
            && c.windows(2).all(|w| !(is_ws(w[0]) && is_ws(w[1])))
    }
    pub fn check_pair(from: &str, to: &str, g: bool) -> Result<(), String> {
        let what = format!("operations({from:?}, {to:?}, graphemes={g})");
        let (f2, t2) = (from.to_string(), to.to_string());
        let r = std::panic::catch_unwind(move || operations(&f2, &t2, g).map_err(|e| e.to_string()));
        let ops = match r { Err(_) => return Err(format!("{what} panics")), Ok(Err(e)) => return Err(format!("{what} failed for clean texts with equal non-whitespace content: {e}")), Ok(Ok(o)) => o };
        if ops.len() != chars_ref(from, g).len() { return Err(format!("{what}: {} operations for {} characters", ops.len(), chars_ref(from, g).len())); }
        match repair(from, &ops, g) { Ok(r) if r == to => Ok(()), other => Err(format!("repair({from:?}, operations(..)) = {other:?}, expected {to:?}")) }
    }
    pub fn check_repair(s: &str, ops: &[Operation], g: bool) -> Result<(), String> {
        let what = format!("repair({s:?}, {ops:?}, graphemes={g})");
        let (s2, o2) = (s.to_string(), ops.to_vec());
        let r = std::panic::catch_unwind(move || repair(&s2, &o2, g).map_err(|e| e.to_string()));
        let n = chars_ref(s, g).len();
        match r {
            Err(_) => Err(format!("{what} panics")),
            Ok(Err(_)) if ops.len() != n => Ok(()),
            Ok(Err(e)) => Err(format!("{what} failed although the lengths match: {e}")),
            Ok(Ok(_)) if ops.len() != n => Err(format!("{what} succeeded although the lengths differ")),
            Ok(Ok(out)) => {
                if !unmixed(&out, g) { return Ok(()); }     // outside the quantifier (a cluster of the output mixes whitespace)
                if non_ws(&out, g) != non_ws(s, g) { return Err(format!("{what} = {out:?} changes more than whitespace")); }
                if ops.iter().all(|o| *o == Operation::Keep) && out != s { return Err(format!("{what} = {out:?}: all-Keep is not the identity")); }
                Ok(())
            }
        }
    }
    pub fn replay(input: &Value) -> Result<(), String> {
        let g = input["graphemes"].as_bool().unwrap_or(true);
        if let Some(ops) = input["ops"].as_array() {
            let ops: Vec<Operation> = ops.iter().map(|o| match o.as_u64().unwrap_or(0) { 1 => Operation::Insert, 2 => Operation::Delete, _ => Operation::Keep }).collect();
            return check_repair(input["text"].as_str().unwrap_or(""), &ops, g);
        }
        check_pair(input["from"].as_str().unwrap_or(""), input["to"].as_str().unwrap_or(""), g)
    }
    /// BOUND: texts of at most 5 pieces from {a, b, space, U+00E4, e+U+0301, U+3000} and of at most 4 from {a, CRLF, space, b} (grapheme mode: unmixed clusters only); all clean
    /// pairs with equal non-whitespace content; repair with every operation sequence of length |s| (|s| <= 4) and two wrong lengths
    pub fn search_all() -> (Vec<(Value, String, String)>, usize) {
        let mut texts = all_texts(&["a", "b", " ", "\u{e4}", "e\u{301}", "\u{3000}"], 5);
        texts.extend(all_texts(&["a", "\r\n", " ", "b"], 4));     // CRLF: one whitespace character in grapheme mode, two code points
        let mut found: Vec<(Value, String, String)> = vec![];
        let mut cases = 0usize;
        for g in [true, false] {
            let clean: Vec<&String> = texts.iter().filter(|t| unmixed(t, g) && is_clean(t, g)).collect();
            let mut by_key: HashMap<Vec<&str>, Vec<&String>> = HashMap::new();
            for t in &clean { by_key.entry(non_ws(t, g)).or_default().push(*t); }
            for group in by_key.values() { for from in group { for to in group {
                cases += 1;
                if let Err(e) = check_pair(from, to, g) {
                    if !found.iter().any(|(_, _, c)| c == "roundtrip") { found.push((json!({"from": from, "to": to, "graphemes": g}), e, "roundtrip".to_string())); }
                }
            } } }
            for t in texts.iter().filter(|t| unmixed(t, g)) {
                let n = chars_ref(t, g).len();
                if n > 4 { continue; }
                let mut seqs: Vec<Vec<Operation>> = vec![vec![]];
                for _ in 0..n { seqs = seqs.into_iter().flat_map(|s| [Operation::Keep, Operation::Insert, Operation::Delete].into_iter().map(move |o| { let mut x = s.clone(); x.push(o); x })).collect(); }
                seqs.push(vec![Operation::Keep; n + 1]);
                if n > 0 { seqs.push(vec![Operation::Keep; n - 1]); }
                for ops in seqs {
                    cases += 1;
                    if let Err(e) = check_repair(t, &ops, g) {
                        if !found.iter().any(|(_, _, c)| c == "repair") {
                            let o: Vec<u8> = ops.iter().map(|o| match o { Operation::Keep => 0, Operation::Insert => 1, Operation::Delete => 2 }).collect();
                            found.push((json!({"text": t, "ops": o, "graphemes": g}), e, "repair".to_string()));
                        }
                    }
                }
            }
        }
        (found, cases)
    }
}

// ------------------------------------------------------------------------------- C11
mod c11 {
    use super::*;
    use crate::text::{clean, word_boundaries};
    use crate::whitespace::{full, remove};

    pub fn check(s: &str, g: bool) -> Result<(), (String, String)> {
        let s2 = s.to_string();
        let r = std::panic::catch_unwind(move || (clean(&s2, g), word_boundaries(&s2, g), remove(&s2, g), full(&s2, g)));
        let (c, wb, rm, fl) = match r { Err(_) => return Err(("panic".into(), format!("clean / word_boundaries / remove / full panics on {s:?} (graphemes={g})"))), Ok(x) => x };
        let words: Vec<&str> = s.split_whitespace().collect();
        let what = format!("clean({s:?}, graphemes={g}) = {c:?}");
        if c != words.join(" ") { return Err(("clean".into(), format!("{what}, the whitespace-split words joined by single spaces are {:?}", words.join(" ")))); }
        let cc = chars_ref(&c, g);
        if cc.first().map_or(false, |x| is_ws(x)) || cc.last().map_or(false, |x| is_ws(x)) || cc.windows(2).any(|w| is_ws(w[0]) && is_ws(w[1])) || cc.iter().any(|x| is_ws(x) && *x != " ") {
            return Err(("clean".into(), format!("{what} has leading, trailing, consecutive or non-space whitespace")));
        }
        if non_ws(&c, g) != non_ws(s, g) { return Err(("clean".into(), format!("{what} does not preserve the non-whitespace characters"))); }
        if clean(&c, g) != c { return Err(("clean".into(), format!("{what} is not idempotent"))); }
        // word boundaries: the character ranges of the words, in order
        let ch = chars_ref(s, g);
        let mut want = vec![];
        let mut start = None;
        for (i, x) in ch.iter().enumerate() {
            match (is_ws(x), start) { (false, None) => start = Some(i), (true, Some(st)) => { want.push((st, i)); start = None; } _ => {} }
        }
        if let Some(st) = start { want.push((st, ch.len())); }
        if wb != want { return Err(("word_boundaries".into(), format!("word_boundaries({s:?}, graphemes={g}) = {wb:?}, the character ranges of the words are {want:?}"))); }
        let nw = non_ws(s, g);
        if rm != nw.concat() { return Err(("remove".into(), format!("remove({s:?}, graphemes={g}) = {rm:?}, expected {:?}", nw.concat()))); }
        if fl != nw.join(" ") { return Err(("full".into(), format!("full({s:?}, graphemes={g}) = {fl:?}, expected {:?}", nw.join(" ")))); }
        Ok(())
    }
    pub fn replay(input: &Value) -> Result<(), String> {
        check(input["text"].as_str().unwrap_or(""), input["graphemes"].as_bool().unwrap_or(true)).map_err(|e| e.1)
    }
    /// BOUND: texts of at most 4 pieces from {a, b, space, tab, U+00A0, U+3000, U+200B, U+000B, CRLF, U+00E4, e+U+0301} and from
    /// {U+1F1E9, U+1F1EA, U+1100, U+1161, space, newline, a}; grapheme mode:
    /// texts without a cluster that mixes whitespace and non-whitespace code points
    pub fn search_all() -> (Vec<(Value, String, String)>, usize) {
        let mut texts = all_texts(&["a", "b", " ", "\t", "\u{a0}", "\u{3000}", "\u{200b}", "\u{b}", "\r\n", "\u{e4}", "e\u{301}"], 4);
        // code points that combine ACROSS removed whitespace: regional indicators, conjoining jamo, ZWJ
        texts.extend(all_texts(&["\u{1f1e9}", "\u{1f1ea}", "\u{1100}", "\u{1161}", " ", "\n", "a"], 4));
        let mut found: Vec<(Value, String, String)> = vec![];
        let mut cases = 0usize;
        for g in [true, false] { for t in &texts {
            if !unmixed(t, g) { continue; }
            cases += 1;
            if let Err((class, e)) = check(t, g) {
                if !found.iter().any(|(_, _, c)| *c == class) { found.push((json!({"text": t, "graphemes": g}), e, class)); }
            }
        } }
        (found, cases)
    }
}

// ------------------------------------------------------------------------------- C06
mod c06 {
    use super::*;
    use crate::data::loading::{BatchLimitType, BatchedIterator, ItemSize};

    #[derive(Debug, Clone, PartialEq, Eq, PartialOrd, Ord)]
    struct It { id: usize, size: usize }
    impl ItemSize for It { fn size(&self) -> usize { self.size } }

    fn fits(batch: &[It], next: &It, limit: usize, padded: bool) -> bool {
        let count = batch.len() + 1;
        if padded { count * batch.iter().map(|i| i.size).max().unwrap_or(0).max(next.size) <= limit } else { count <= limit }
    }
    #[allow(clippy::too_many_arguments)]
    pub fn check(sizes: &[usize], sort: bool, shuffle: bool, prefetch: usize, limit: usize, padded: bool, seed: u64) -> Result<(), String> {
        let what = format!("batched(sizes={sizes:?}, sort={sort}, shuffle={shuffle}, prefetch={prefetch}, limit={limit}, {}, seed={seed})", if padded { "PaddedItemSize" } else { "BatchSize" });
        let items: Vec<It> = sizes.iter().enumerate().map(|(id, &size)| It { id, size }).collect();
        let n = items.len();
        let run = { let items = items.clone(); move || -> Option<Result<Vec<Vec<It>>, ()>> {
            let items = items.clone();
            with_deadline(move || items.into_iter().batched(sort, shuffle, prefetch, limit, if padded { BatchLimitType::PaddedItemSize } else { BatchLimitType::BatchSize }, Some(seed)).take(10 * n + 10).collect())
        } };
        let batches = match run() { None => return Err(format!("{what} does not terminate (no result within 5 s)")), Some(Err(())) => return Err(format!("{what} panics")), Some(Ok(b)) => b };
        if batches.len() >= 10 * n + 10 { return Err(format!("{what} yields batches without end")); }
        match run() { Some(Ok(b2)) if b2 == batches => {}, _ => return Err(format!("{what} is not a deterministic function of the seed")) }
        let mut seen: Vec<It> = batches.iter().flatten().cloned().collect();
        if !sort && !shuffle && seen != items { return Err(format!("{what}: the concatenation of the batches is not the input order")); }
        seen.sort();
        if seen != items { return Err(format!("{what}: the batches {:?} do not partition the input", batches.iter().map(|b| b.iter().map(|i| i.id).collect::<Vec<_>>()).collect::<Vec<_>>())); }
        for b in &batches {
            if b.is_empty() { return Err(format!("{what}: empty batch")); }
            let size = if padded { b.len() * b.iter().map(|i| i.size).max().unwrap() } else { b.len() };
            if b.len() > 1 && size > limit { return Err(format!("{what}: batch with sizes {:?} exceeds the limit ({size} > {limit})", b.iter().map(|i| i.size).collect::<Vec<_>>())); }
        }
        if !sort && !shuffle {
            for w in batches.windows(2) {
                if fits(&w[0], &w[1][0], limit, padded) { return Err(format!("{what}: batch {:?} is not greedy-maximal, the next item (size {}) still fits", w[0].iter().map(|i| i.size).collect::<Vec<_>>(), w[1][0].size)); }
            }
        }
        Ok(())
    }
    pub fn replay(input: &Value) -> Result<(), String> {
        let sizes: Vec<usize> = input["sizes"].as_array().map(|a| a.iter().map(|x| x.as_u64().unwrap_or(0) as usize).collect()).unwrap_or_default();
        let b = |k: &str| input[k].as_bool().unwrap_or(false);
        check(&sizes, b("sort"), b("shuffle"), input["prefetch"].as_u64().unwrap_or(1) as usize, input["limit"].as_u64().unwrap_or(4) as usize, b("padded"), input["seed"].as_u64().unwrap_or(0))
    }
    /// BOUND: every size sequence of length <= 3 and every second one of length 4 over {0, 1, 3, 9} plus four longer ones x sort x shuffle x prefetch in {0,2} x limit in
    /// {0,1,4,9,16} x {BatchSize, PaddedItemSize} x seeds {0,1}
    pub fn search_all() -> (Vec<(Value, String, String)>, usize) {
        let mut seqs: Vec<Vec<usize>> = vec![vec![]];
        let mut frontier: Vec<Vec<usize>> = vec![vec![]];
        for _ in 0..4 {
            let mut next = vec![];
            for s in &frontier { for x in [0usize, 1, 3, 9] { let mut t = s.clone(); t.push(x); next.push(t); } }
            seqs.extend(next.iter().cloned());
            frontier = next;
        }
        seqs.extend([vec![4; 8], vec![1, 1, 9, 1, 1, 1, 1, 1], vec![3, 7, 2, 8, 1, 5, 6, 4, 2, 9, 3, 1], vec![9, 1, 1, 1, 9, 9, 1, 0, 0, 3]]);
        let mut found: Vec<(Value, String, String)> = vec![];
        let mut cases = 0usize;
        for (k, s) in seqs.iter().enumerate() {
            if s.len() == 4 && k % 2 == 1 { continue; }
            for sort in [false, true] { for shuffle in [false, true] { for prefetch in [0usize, 2] { for limit in [0usize, 1, 4, 9, 16] { for padded in [false, true] {
                let seeds: &[u64] = if (sort || shuffle) && k % 5 == 0 { &[0, 1] } else { &[0] };
                for &seed in seeds {
                    cases += 1;
                    if let Err(e) = check(s, sort, shuffle, prefetch, limit, padded, seed) {
                        let class = if sort || shuffle { "sorted-or-shuffled" } else { "plain" };
                        if !found.iter().any(|(_, _, c)| c == class) {
                            found.push((json!({"sizes": s, "sort": sort, "shuffle": shuffle, "prefetch": prefetch, "limit": limit, "padded": padded, "seed": seed}), e, class.to_string()));
                        }
                    }
                }
            } } } } }
        }
        (found, cases)
    }
}
