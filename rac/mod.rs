//! Replay / probe driver of /verif (compiled into the real crate only with `--features verif`).
//!
//! Nothing in here decides a property: properties are decided by the verifier accepting every
//! obligation.  These probes only (a) replay a concrete input against the real code to attach a
//! failing input to an obligation the verifier rejected, and (b) search small input spaces for
//! such an input.  Driver: one `#[test]` that dispatches on environment variables
//!   VT_MODE = replay | search,  VT_PROP = C04 | ...,  VT_INPUT = path of a JSON file (replay)
//! and prints lines `PROBE-FAIL <json>` (property clause violated by this input) or `PROBE-OK`.
#![allow(dead_code)]

#[cfg(test)]
mod probes {
    use serde_json::{json, Value};
    use std::collections::HashMap;

    // ------------------------------------------------------------------------------- C01
    mod c01 {
        use super::*;
        use crate::tokenization::*;
        use crate::unicode::CS;

        fn special(tokens: &[&str], fix: bool) -> SpecialConfig {
            SpecialConfig {
                pad: "<pad>".to_string(),
                tokens: tokens.iter().map(|s| s.to_string()).collect(),
                // two DISTINCT prefix tokens and two distinct suffix tokens: order matters
                prefix: if fix { vec!["<bos>".to_string(), "<unk>".to_string()] } else { vec![] },
                suffix: if fix { vec!["<eos>".to_string(), "<pad>".to_string()] } else { vec![] },
            }
        }

        /// the text split at the occurrences of the special tokens (no token is a prefix of, or overlaps, another in the
        /// configurations below, so "leftmost occurrence" is unambiguous)
        fn segments<'a>(text: &'a str, tokens: &[&'a str]) -> Vec<(bool, &'a str)> {
            let mut out = vec![];
            let mut rest = text;
            loop {
                let next = tokens.iter().filter_map(|t| rest.find(t).map(|p| (p, *t))).min();
                match next {
                    None => { if !rest.is_empty() { out.push((false, rest)); } return out; }
                    Some((p, t)) => {
                        if p > 0 { out.push((false, &rest[..p])); }
                        out.push((true, &rest[p..p + t.len()]));
                        rest = &rest[p + t.len()..];
                    }
                }
            }
        }

        /// byte tokenizer clause of C01 for one configuration and text
        fn byte_tok(g: bool, code_points: bool, pad_to: bool, fix: bool, meta: bool) -> anyhow::Result<ByteTokenizer> {
            let toks: Vec<&str> = if meta { vec!["<unk>", "<bos>", "<eos>", "<pad>", "<|sep|>", "[SEP]"] } else { vec!["<unk>", "<bos>", "<eos>", "<pad>"] };
            ByteTokenizer::new(
                ByteTokenizerConfig { use_graphemes: g, pad_to_multiple_of: if pad_to { Some(8) } else { None },
                    groups: if code_points { ByteGroups::CodePoints } else { ByteGroups::Bytes }, aggregation: GroupAggregation::Mean },
                special(&toks, fix),
            )
        }
        pub fn check_byte(text: &str, g: bool, code_points: bool, pad_to: bool, fix: bool, meta: bool, ignore: bool) -> Result<(), String> {
            check_byte_with(None, text, g, code_points, pad_to, fix, meta, ignore)
        }
        #[allow(clippy::too_many_arguments)]
        fn check_byte_with(cached: Option<&ByteTokenizer>, text: &str, g: bool, code_points: bool, pad_to: bool, fix: bool, meta: bool, ignore: bool) -> Result<(), String> {
            let toks: Vec<&str> = if meta { vec!["<unk>", "<bos>", "<eos>", "<pad>", "<|sep|>", "[SEP]"] } else { vec!["<unk>", "<bos>", "<eos>", "<pad>"] };
            let what = format!("ByteTokenizer(graphemes={g}, code_point_groups={code_points}, pad_to_multiple_of={}, prefix/suffix={fix}, special tokens {toks:?}).tokenize({text:?}, ignore_special_tokens={ignore})", if pad_to { "8" } else { "none" });
            let built;
            let t = match cached { Some(t) => t, None => { built = byte_tok(g, code_points, pad_to, fix, meta).map_err(|e| format!("{what}: construction failed: {e}"))?; &built } };
            let r = std::panic::catch_unwind(std::panic::AssertUnwindSafe(|| t.tokenize(text, ignore)));
            let tok = match r { Err(_) => return Err(format!("{what} panics")), Ok(Err(e)) => return Err(format!("{what} failed: {e}")), Ok(Ok(t)) => t };
            let mut inner: Vec<u32> = vec![];
            if ignore {
                inner.extend(text.bytes().map(|b| b as u32));
            } else {
                for (is_special, seg) in segments(text, &toks) {
                    if is_special {
                        let id = t.token_to_id(seg).ok_or(format!("{what}: token_to_id({seg:?}) is None"))?;
                        // "the UTF-8 bytes of the text as ids 0..255": a special id inside that range would be a byte
                        if id < 256 { return Err(format!("{what}: special token {seg:?} has id {id}, which is a byte id")); }
                        inner.push(id);
                    }
                    else { inner.extend(seg.bytes().map(|b| b as u32)); }
                }
            }
            // prefix / suffix ids from the CONFIGURATION (not from the tokenizer's own accessor), in the configured order
            let fix_ids = |names: &[&str]| -> Result<Vec<u32>, String> { names.iter().map(|n| t.token_to_id(n).ok_or(format!("{what}: no id for {n}"))).collect() };
            let (pre, suf) = if fix { (fix_ids(&["<bos>", "<unk>"])?, fix_ids(&["<eos>", "<pad>"])?) } else { (vec![], vec![]) };
            if t.prefix_token_ids() != pre.as_slice() || t.suffix_token_ids() != suf.as_slice() {
                return Err(format!("{what}: prefix/suffix ids {:?}/{:?}, configured {pre:?}/{suf:?}", t.prefix_token_ids(), t.suffix_token_ids()));
            }
            let mut want: Vec<u32> = pre.clone();
            want.extend(&inner);
            want.extend(&suf);
            if tok.token_ids != want {
                return Err(format!("{what} = {:?}, expected prefix ids + UTF-8 bytes (special tokens as single ids) + suffix ids = {want:?}", tok.token_ids));
            }
            let back = t.de_tokenize(&inner, false).map_err(|e| format!("{what}: de_tokenize failed: {e}"))?;
            if back != text { return Err(format!("{what}: decoding the ids gives {back:?}")); }
            Ok(())
        }

        /// character tokenizer clause of C01
        fn char_tok(g: bool, fix: bool) -> anyhow::Result<CharTokenizer> {
            CharTokenizer::new(CharTokenizerConfig { use_graphemes: g, unk_token: "<unk>".to_string() }, special(&["<unk>", "<bos>", "<eos>", "<pad>"], fix))
        }
        pub fn check_char(text: &str, g: bool, fix: bool, ignore: bool) -> Result<(), String> { check_char_with(None, text, g, fix, ignore) }
        fn check_char_with(cached: Option<&CharTokenizer>, text: &str, g: bool, fix: bool, ignore: bool) -> Result<(), String> {
            let toks = ["<unk>", "<bos>", "<eos>", "<pad>"];
            let what = format!("CharTokenizer(graphemes={g}, prefix/suffix={fix}).tokenize({text:?}, ignore_special_tokens={ignore})");
            let built;
            let t = match cached { Some(t) => t, None => { built = char_tok(g, fix).map_err(|e| format!("{what}: construction failed: {e}"))?; &built } };
            let r = std::panic::catch_unwind(std::panic::AssertUnwindSafe(|| t.tokenize(text, ignore)));
            let tok = match r { Err(_) => return Err(format!("{what} panics")), Ok(Err(e)) => return Err(format!("{what} failed: {e}")), Ok(Ok(t)) => t };
            let unk = t.token_to_id("<unk>").ok_or("no unk id")?;
            let cfg_ids = |names: &[&str]| -> Vec<u32> { names.iter().filter_map(|n| t.token_to_id(n)).collect() };
            let (pre, suf) = if fix { (cfg_ids(&["<bos>", "<unk>"]), cfg_ids(&["<eos>", "<pad>"])) } else { (vec![], vec![]) };
            if t.prefix_token_ids() != pre.as_slice() || t.suffix_token_ids() != suf.as_slice() {
                return Err(format!("{what}: prefix/suffix ids {:?}/{:?}, configured {pre:?}/{suf:?}", t.prefix_token_ids(), t.suffix_token_ids()));
            }
            let mut want: Vec<u32> = pre.clone();
            let mut in_alphabet = true;
            let segs: Vec<(bool, &str)> = if ignore { vec![(false, text)] } else { segments(text, &toks) };
            for (is_special, seg) in segs {
                if is_special { want.push(t.token_to_id(seg).ok_or("special id")?); continue; }
                for c in CS::new(seg, g).chars() {
                    let mut it = c.str.chars();
                    let first = it.next().unwrap();
                    let id = if it.next().is_none() { t.token_to_id(&first.to_string()).filter(|id| *id != unk) } else { None };
                    match id { Some(id) => want.push(id), None => { in_alphabet = false; want.push(unk); } }
                }
            }
            let n_inner = want.len() - pre.len();
            want.extend(&suf);
            if tok.token_ids != want {
                return Err(format!("{what} = {:?}, expected one id per character (unknown id {unk} outside the alphabet): {want:?}", tok.token_ids));
            }
            if in_alphabet {
                let p = t.prefix_token_ids().len();
                let back = t.de_tokenize(&tok.token_ids[p..p + n_inner], false).map_err(|e| format!("{what}: de_tokenize failed: {e}"))?;
                if back != text { return Err(format!("{what}: decoding the ids gives {back:?}")); }
            }
            Ok(())
        }

        pub fn replay(input: &Value) -> Result<(), String> {
            let b = |k: &str| input[k].as_bool().unwrap_or(false);
            let text = input["text"].as_str().unwrap_or("");
            if input["tokenizer"].as_str() == Some("char") { check_char(text, b("graphemes"), b("fix"), b("ignore")) }
            else { check_byte(text, b("graphemes"), b("code_points"), b("pad_to"), b("fix"), b("meta"), b("ignore")) }
        }

        /// BOUND: every text of at most 3 pieces from the alphabet below, all byte-tokenizer configurations (2^6) and
        /// character-tokenizer configurations (2^3)
        pub const PIECES: [&str; 16] = ["a", "Z", " ", "\u{e4}", "e\u{301}", "\r\n", "\u{1f469}\u{200d}\u{1f469}", "<bos>", "<|sep|>", "[SEP]", "<", "|", "sep", "<unk>", "\0", "\u{10ffff}"];
        pub fn search_all() -> (Vec<(Value, String, String)>, usize) {
            let mut texts = vec![String::new()];
            let mut frontier = vec![String::new()];
            for _ in 0..3 {
                let mut next = vec![];
                for t in &frontier { for a in PIECES { next.push(format!("{t}{a}")); } }
                texts.extend(next.iter().cloned());
                frontier = next;
            }
            let mut found: Vec<(Value, String, String)> = vec![];
            let mut cases = 0usize;
            for m in 0u32..32 {
                let f = |k: u32| m & (1 << k) != 0;
                let tok = byte_tok(f(0), f(1), f(2), f(3), f(4)).ok();
                for text in &texts {
                    for ignore in [false, true] {
                        cases += 1;
                        if let Err(e) = check_byte_with(tok.as_ref(), text, f(0), f(1), f(2), f(3), f(4), ignore) {
                            if !found.iter().any(|(_, _, c)| c == "byte") {
                                found.push((json!({"tokenizer": "byte", "text": text, "graphemes": f(0), "code_points": f(1), "pad_to": f(2), "fix": f(3), "meta": f(4), "ignore": ignore}), e, "byte".to_string()));
                            }
                        }
                    }
                }
            }
            for m in 0u32..4 {
                let f = |k: u32| m & (1 << k) != 0;
                let tok = char_tok(f(0), f(1)).ok();
                for text in &texts {
                    for ignore in [false, true] {
                        cases += 1;
                        if let Err(e) = check_char_with(tok.as_ref(), text, f(0), f(1), ignore) {
                            if !found.iter().any(|(_, _, c)| c == "char") {
                                found.push((json!({"tokenizer": "char", "text": text, "graphemes": f(0), "fix": f(1), "ignore": ignore}), e, "char".to_string()));
                            }
                        }
                    }
                }
            }
            (found, cases)
        }
        pub fn search() -> Option<(Value, String)> { search_all().0.into_iter().next().map(|(i, e, _)| (i, e)) }
    }

    // ------------------------------------------------------------------------------- C04
    mod c04 {
        use super::*;
        use crate::tokenization::*;
        use crate::utils::SerializeMsgPack;

        fn bpe_from(merges: &[(Vec<u8>, u32)], tag: &str) -> anyhow::Result<BPETokenizer> { bpe_from_limit(merges, tag, None) }
        pub fn bpe_from_limit(merges: &[(Vec<u8>, u32)], tag: &str, max_vocab_size: Option<usize>) -> anyhow::Result<BPETokenizer> { bpe_from_cfg(merges, tag, max_vocab_size, false) }
        pub fn bpe_from_cfg(merges: &[(Vec<u8>, u32)], tag: &str, max_vocab_size: Option<usize>, fix: bool) -> anyhow::Result<BPETokenizer> {
            let mut m: MergeOps = HashMap::new();
            for (k, v) in merges {
                m.insert(k.clone(), *v);
            }
            let p = std::env::temp_dir().join(format!("vt_probe_{}_{}.merges", std::process::id(), tag));
            m.save(&p)?;
            let t = BPETokenizer::new(
                BPETokenizerConfig { merge_file: p.clone(), max_vocab_size, use_graphemes: true },
                if fix { SpecialConfig { prefix: vec!["<bos>".to_string()], suffix: vec!["<eos>".to_string()], ..SpecialConfig::default() } } else { SpecialConfig::default() },
            );
            std::fs::remove_file(&p).ok();
            t
        }

        /// the statement of C04 for one tokenizer, through the public `Tokenize` API
        fn check_tok(t: &dyn Tokenize, what: &str) -> Result<(), String> {
            let vocab = t.get_vocab().map_err(|e| format!("{what}: get_vocab failed: {e}"))?;
            let n = t.vocab_size();
            if vocab.len() != n {
                return Err(format!("{what}: get_vocab has {} entries, vocab_size is {}", vocab.len(), n));
            }
            for id in 0..(n as u32 + 8) {
                let got = t.id_to_token(id);
                let want = vocab.get(id as usize).cloned();
                if got != want {
                    return Err(format!("{what}: id_to_token({id}) = {got:?} but get_vocab()[{id}] = {want:?}"));
                }
                if let Some(bytes) = want {
                    if let Ok(s) = std::str::from_utf8(&bytes) {
                        let back = t.token_to_id(s);
                        if back != Some(id) {
                            return Err(format!("{what}: token_to_id({s:?}) = {back:?}, expected Some({id})"));
                        }
                    }
                }
            }
            Ok(())
        }

        pub fn replay(input: &Value) -> Result<(), String> {
            let merges: Vec<(Vec<u8>, u32)> = input["merges"]
                .as_array()
                .ok_or("merges missing")?
                .iter()
                .map(|e| (e[0].as_str().unwrap().as_bytes().to_vec(), e[1].as_u64().unwrap() as u32))
                .collect();
            let limit = input["max_vocab_size"].as_u64().map(|x| x as usize);
            match input["kind"].as_str() {
                Some("byte") => {
                    let t = ByteTokenizer::new(
                        ByteTokenizerConfig { use_graphemes: true, pad_to_multiple_of: input["pad_to"].as_u64().map(|x| x as usize), groups: ByteGroups::Bytes, aggregation: GroupAggregation::Mean },
                        special_of(input),
                    ).map_err(|e| e.to_string())?;
                    check_tok(&t, "byte")?;
                    check_special(&t, 256, "byte")
                }
                Some("char") => {
                    let t = CharTokenizer::new(CharTokenizerConfig { use_graphemes: true, unk_token: "<unk>".to_string() }, special_of(input)).map_err(|e| e.to_string())?;
                    check_tok(&t, "char")
                }
                _ => {
                    let t = bpe_from_limit(&merges, "replay", limit).map_err(|e| e.to_string())?;
                    check_tok(&t, &format!("bpe(max_vocab_size={limit:?})"))?;
                    // decoding a single regular id yields exactly that token's bytes
                    let vocab = t.get_vocab().map_err(|e| e.to_string())?;
                    for id in 0..(vocab.len().saturating_sub(4)) as u32 {
                        if let Ok(sx) = std::str::from_utf8(&vocab[id as usize]) {
                            match t.de_tokenize(&[id], true) { Ok(d) if d == sx => {}, other => return Err(format!("bpe(max_vocab_size={limit:?}): de_tokenize([{id}]) = {other:?}, get_vocab()[{id}] = {sx:?}")) }
                        }
                    }
                    check_special(&t, vocab.len() as u32 - 4, "bpe")
                }
            }
        }
        fn special_of(input: &Value) -> SpecialConfig {
            let mut tokens: Vec<String> = vec!["<unk>".into(), "<bos>".into(), "<eos>".into(), "<pad>".into()];
            if input["duplicates"].as_bool().unwrap_or(false) { tokens.push("<bos>".into()); tokens.push("<x>".into()); }
            // a user token spelled like a generated padding token (pad_to_multiple_of)
            if input["collision"].as_bool().unwrap_or(false) { tokens.push("<extra_token_0>".into()); }
            // a special token that is a single character outside every regular alphabet
            if input["single_char"].as_bool().unwrap_or(false) { tokens.push("\u{b6}".into()); }
            SpecialConfig { pad: "<pad>".into(), tokens, prefix: vec!["<bos>".into()], suffix: vec!["<eos>".into()] }
        }
        /// pad / prefix / suffix / special ids lie inside the vocabulary and are distinct from every regular id
        fn check_special(t: &dyn Tokenize, regular: u32, what: &str) -> Result<(), String> {
            let n = t.vocab_size() as u32;
            let mut ids: Vec<u32> = t.prefix_token_ids().to_vec();
            ids.extend(t.suffix_token_ids());
            ids.push(t.pad_token_id());
            for tok in ["<unk>", "<bos>", "<eos>", "<pad>"] { ids.push(t.token_to_id(tok).ok_or(format!("{what}: special token {tok} has no id"))?); }
            for id in ids { if id < regular || id >= n { return Err(format!("{what}: special id {id} is not in [{regular}, {n}) (regular ids below, vocabulary size above)")); } }
            Ok(())
        }

        pub fn search() -> Option<(Value, String)> {
            let tables: Vec<Vec<(&str, u32)>> = vec![
                vec![],
                vec![("ab", 0)],
                vec![("ab", 0), ("cd", 1)],
                vec![("ab", 0), ("abc", 1), ("bc", 2)],
                vec![("aa", 0), ("aaa", 1), ("aaaa", 2), (" a", 3)],
            ];
            for tb in tables {
                let m = tb.iter().map(|(k, v)| json!([k, v])).collect::<Vec<_>>();
                let mut inputs = vec![json!({"kind": "bpe", "merges": m})];
                // every truncating and non-truncating max_vocab_size (256 bytes + 4 special tokens + k merges)
                for k in 0..=tb.len() + 1 { inputs.push(json!({"kind": "bpe", "merges": m, "max_vocab_size": 260 + k})); }
                for input in inputs {
                    if let Err(e) = replay(&input) {
                        return Some((input, e));
                    }
                }
            }
            for dup in [false, true] {
                for pad_to in [None, Some(8u64), Some(128)] { for collision in [false, true] {
                    let input = json!({"kind": "byte", "merges": [], "duplicates": dup, "pad_to": pad_to, "collision": collision});
                    if let Err(e) = replay(&input) { return Some((input, e)); }
                } }
                for single_char in [false, true] {
                    let input = json!({"kind": "char", "merges": [], "duplicates": dup, "single_char": single_char});
                    if let Err(e) = replay(&input) { return Some((input, e)); }
                    let input = json!({"kind": "byte", "merges": [], "duplicates": dup, "single_char": single_char});
                    if let Err(e) = replay(&input) { return Some((input, e)); }
                }
            }
            None
        }
    }


    // ------------------------------------------------------------------------------- C12
    mod c12 {
        use super::*;
        use crate::edit::*;

        fn ws(c: &str) -> bool { c.chars().all(char::is_whitespace) }
        /// reference dynamic programme, written from the property statement (characters = code points or grapheme clusters)
        fn reference(a: &[&str], b: &[&str], sw: bool, sp: bool) -> Vec<Vec<usize>> {
            let (n, m) = (a.len(), b.len());
            let mut d = vec![vec![0usize; m + 1]; n + 1];
            for i in 0..=n {
                for j in 0..=m {
                    if i == 0 { d[i][j] = j; continue; }
                    if j == 0 { d[i][j] = i; continue; }
                    let mut best = (d[i - 1][j] + 1).min(d[i][j - 1] + 1);
                    if a[i - 1] == b[j - 1] {
                        best = best.min(d[i - 1][j - 1]);
                    } else if !sp || (!ws(a[i - 1]) && !ws(b[j - 1])) {
                        best = best.min(d[i - 1][j - 1] + 1);
                    }
                    if sw && i > 1 && j > 1 && a[i - 1] == b[j - 2] && a[i - 2] == b[j - 1]
                        && (!sp || (!ws(a[i - 1]) && !ws(a[i - 2]))) {
                        best = best.min(d[i - 2][j - 2] + 1);
                    }
                    d[i][j] = best;
                }
            }
            d
        }

        /// apply a position-sorted script to `a` (positions refer to a and b as reported by operations())
        fn apply<'x>(a: &[&'x str], b: &[&'x str], script: &[(EditOperation, usize, usize)]) -> Option<Vec<&'x str>> {
            let mut out = vec![];
            let mut i = 0usize;
            for (op, ai, bj) in script {
                if *ai < i || *ai > a.len() { return None; }
                out.extend_from_slice(&a[i..*ai]);
                i = *ai;
                if out.len() != *bj { return None; }
                match op {
                    EditOperation::Insert => { out.push(*b.get(*bj)?); }
                    EditOperation::Delete => { i += 1; }
                    EditOperation::Replace => { out.push(*b.get(*bj)?); i += 1; }
                    EditOperation::Swap => { out.push(*a.get(i + 1)?); out.push(*a.get(i)?); i += 2; }
                }
            }
            if i > a.len() { return None; }
            out.extend_from_slice(&a[i..]);
            Some(out)
        }

        pub fn check(a: &str, b: &str, sw: bool, sp: bool) -> Result<(), String> { check_g(a, b, sw, sp, false) }
        pub fn check_g(a: &str, b: &str, sw: bool, sp: bool, g: bool) -> Result<(), String> {
            let (ac, bc): (Vec<&str>, Vec<&str>) = (chars_ref(a, g), chars_ref(b, g));
            let d = reference(&ac, &bc, sw, sp);
            let want = d[ac.len()][bc.len()];
            let got = distance(a, b, g, sw, sp, false);
            if got != want as f64 {
                return Err(format!("distance({a:?},{b:?},graphemes={g},swap={sw},spaces={sp}) = {got}, reference DP = {want}"));
            }
            let nd = distance(a, b, g, sw, sp, true);
            if !nd.is_finite() {
                return Err(format!("normalized distance({a:?},{b:?}) = {nd} (not finite)"));
            }
            if a == b && nd != 0.0 {
                return Err(format!("normalized distance of equal strings {a:?} = {nd}"));
            }
            // under spaces_insert_delete_only the value can exceed 1 (known finding, see /verif/known_findings.txt);
            // it is only reported when VT_INCLUDE_KNOWN is set
            if (!sp || std::env::var("VT_INCLUDE_KNOWN").is_ok()) && !(0.0..=1.0).contains(&nd) {
                return Err(format!("normalized distance({a:?},{b:?}) = {nd} outside [0,1]"));
            }
            let longer = ac.len().max(bc.len());
            if longer > 0 && nd != want as f64 / longer as f64 {
                return Err(format!("normalized distance({a:?},{b:?},graphemes={g}) = {nd}, expected {want}/{longer} (the longer length in characters)"));
            }
            let pmin = *d[ac.len()].iter().min().unwrap();
            let pd = prefix_distance(a, b, g, sw, sp, false);
            if pd != pmin as f64 {
                return Err(format!("prefix_distance({a:?},{b:?}) = {pd}, minimum over prefixes = {pmin}"));
            }
            let script = operations(a, b, g, sw, sp);
            if script.len() != want {
                return Err(format!("operations({a:?},{b:?}) has {} entries, distance is {want}", script.len()));
            }
            for w in script.windows(2) {
                if w[0].1 > w[1].1 || w[0].2 > w[1].2 {
                    return Err(format!("operations({a:?},{b:?}) not sorted by position: {script:?}"));
                }
            }
            match apply(&ac, &bc, &script) {
                Some(out) if out == bc => Ok(()),
                other => Err(format!("applying operations({a:?},{b:?}) = {script:?} to a yields {other:?}, not b")),
            }
        }

        pub fn replay(input: &Value) -> Result<(), String> {
            check_g(
                input["a"].as_str().ok_or("a")?,
                input["b"].as_str().ok_or("b")?,
                input["with_swap"].as_bool().unwrap_or(true),
                input["spaces_insert_delete_only"].as_bool().unwrap_or(false),
                input["use_graphemes"].as_bool().unwrap_or(false),
            )
        }

        fn strings(alpha: &[char], max: usize) -> Vec<String> {
            let mut out = vec![String::new()];
            let mut last = vec![String::new()];
            for _ in 0..max {
                let mut next = vec![];
                for s in &last {
                    for c in alpha {
                        let mut t = s.clone();
                        t.push(*c);
                        next.push(t);
                    }
                }
                out.extend(next.iter().cloned());
                last = next;
            }
            out
        }

        pub fn search() -> Option<(Value, String)> {
            let ss = strings(&['a', 'b', ' '], 3);
            for sw in [false, true] {
                for sp in [false, true] {
                    for a in &ss {
                        for b in &ss {
                            let r = std::panic::catch_unwind(|| check(a, b, sw, sp));
                            let e = match r { Ok(Ok(())) => continue, Ok(Err(e)) => e, Err(_) => "panic".to_string() };
                            return Some((json!({"a": a, "b": b, "with_swap": sw, "spaces_insert_delete_only": sp}), e));
                        }
                    }
                }
            }
            // grapheme mode: multi-code-point characters (combining mark, CRLF)
            let gs = all_texts(&["a", "e\u{301}", "\r\n", " "], 3);
            for sw in [false, true] { for sp in [false, true] { for a in &gs { for b in &gs {
                let r = std::panic::catch_unwind(|| check_g(a, b, sw, sp, true));
                let e = match r { Ok(Ok(())) => continue, Ok(Err(e)) => e, Err(_) => "panic".to_string() };
                return Some((json!({"a": a, "b": b, "with_swap": sw, "spaces_insert_delete_only": sp, "use_graphemes": true}), e));
            } } } }
            None
        }
    }


    // ------------------------------------------------------------------------------- C07
    mod c07 {
        use super::*;
        use crate::data::loading::*;
        use crate::data::TrainData;

        struct ExactLen<I> { it: I }
        impl<I: Iterator> Iterator for ExactLen<I> {
            type Item = I::Item;
            fn next(&mut self) -> Option<I::Item> { self.it.next() }
            fn size_hint(&self) -> (usize, Option<usize>) { self.it.size_hint() }
        }
        impl<I: ExactSizeIterator> ExactSizeIterator for ExactLen<I> {}

        fn source(k: usize, n: usize) -> TrainDataGenerator {
            Box::new(ExactLen { it: (0..n).map(move |i| Ok(TrainData::new(format!("s{k}i{i}"), None))).collect::<Vec<_>>().into_iter() })
        }

        /// the statement of C07 for one configuration; runs in a thread so that non-termination is observable
        pub fn check(lengths: Vec<usize>, strategy: &str, seed: u64) -> Result<(), String> {
            let strat = match strategy {
                "sequential" => GenerationStrategy::Sequential,
                "interleaved" => GenerationStrategy::Interleaved,
                _ => GenerationStrategy::Weighted,
            };
            let (tx, rx) = std::sync::mpsc::channel();
            let ls = lengths.clone();
            std::thread::spawn(move || {
                let gens: Vec<TrainDataGenerator> = ls.iter().enumerate().map(|(k, n)| source(k, *n)).collect();
                let g = match MultiTrainDataGenerator::new(gens, strat, Some(seed)) { Ok(g) => g, Err(_) => { tx.send(None).ok(); return; } };
                let items: Vec<(String, usize)> = g.map(|(d, k)| (format!("{:?}", d.unwrap()), k)).collect();
                tx.send(Some(items)).ok();
            });
            let items = match rx.recv_timeout(std::time::Duration::from_secs(5)) {
                Ok(Some(items)) => items,
                Ok(None) => return Ok(()), // rejected configuration (weighted with an empty source)
                Err(_) => return Err(format!("generator over sources of lengths {lengths:?} ({strategy}) does not terminate (no result within 5 s)")),
            };
            let total: usize = lengths.iter().sum();
            if items.len() != total {
                return Err(format!("lengths {lengths:?} ({strategy}): yielded {} items, expected {total}", items.len()));
            }
            let mut next = vec![0usize; lengths.len()];
            let mut last_src: Option<usize> = None;
            for (text, k) in &items {
                let want = format!("s{k}i{}", next[*k]);
                if !text.contains(&format!("\"{want}\"")) {
                    return Err(format!("lengths {lengths:?} ({strategy}): source {k} yielded {text} where item {want} was due"));
                }
                next[*k] += 1;
                if strategy == "sequential" {
                    if let Some(l) = last_src { if *k < l { return Err(format!("sequential visits source {k} after {l}")); } }
                }
                if strategy == "interleaved" {
                    // round robin over the sources that still have items: the next source after `l` (cyclically) with items left
                    if let Some(l) = last_src {
                        let n = lengths.len();
                        let mut e = (l + 1) % n;
                        // `next` already counts this item for k; a source "has items" if not exhausted before this step
                        let has = |q: usize, next: &Vec<usize>| if q == *k { true } else { next[q] < lengths[q] };
                        let mut guard = 0;
                        while !has(e, &next) && guard < n { e = (e + 1) % n; guard += 1; }
                        if e != *k { return Err(format!("lengths {lengths:?}: interleaved yields from source {k} after {l}, expected source {e}")); }
                    }
                }
                last_src = Some(*k);
            }
            Ok(())
        }

        pub fn replay(input: &Value) -> Result<(), String> {
            let lengths: Vec<usize> = input["lengths"].as_array().ok_or("lengths")?.iter().map(|x| x.as_u64().unwrap() as usize).collect();
            if input["strategy"].as_str() == Some("weighted-repro") { return check_repro(lengths, input["seed"].as_u64().unwrap_or(0)); }
            check(lengths, input["strategy"].as_str().unwrap_or("interleaved"), input["seed"].as_u64().unwrap_or(1))
        }

        /// the weighted strategy is reproducible from the seed: two generators with the same seed yield the same source order
        pub fn check_repro(lengths: Vec<usize>, seed: u64) -> Result<(), String> {
            let run = |ls: &Vec<usize>| -> Option<Vec<usize>> {
                let gens: Vec<TrainDataGenerator> = ls.iter().enumerate().map(|(k, n)| source(k, *n)).collect();
                MultiTrainDataGenerator::new(gens, GenerationStrategy::Weighted, Some(seed)).ok().map(|g| g.take(10_000).map(|(_, k)| k).collect())
            };
            let (a, b) = (run(&lengths), run(&lengths));
            if a != b { return Err(format!("weighted generator over sources of lengths {lengths:?} with seed {seed} is not reproducible: {a:?} vs {b:?}")); }
            Ok(())
        }

        pub fn search() -> Option<(Value, String)> {
            for seed in [0u64, 1, 7, u64::MAX] {
                for c in [vec![40usize, 25, 35], vec![5, 5], vec![9, 1, 30]] {
                    if let Err(e) = check_repro(c.clone(), seed) {
                        return Some((json!({"lengths": c, "strategy": "weighted-repro", "seed": seed}), e));
                    }
                }
            }
            let configs: Vec<Vec<usize>> = vec![vec![1], vec![3], vec![1, 3], vec![3, 1], vec![2, 2], vec![0, 2], vec![2, 0, 1], vec![1, 2, 3], vec![3, 1, 2, 1]];
            for strategy in ["sequential", "interleaved", "weighted"] {
                for c in &configs {
                    if let Err(e) = check(c.clone(), strategy, 7) {
                        return Some((json!({"lengths": c, "strategy": strategy, "seed": 7}), e));
                    }
                }
            }
            None
        }
    }


    // ------------------------------------------------------------------------------- C15
    mod c15 {
        use super::*;
        use crate::corrupt::*;
        use crate::unicode::CS;
        use std::borrow::Cow;

        /// context providers at every position of `word`, including start and end: must not panic, and must look up
        /// (previous character or <bow>, character or <eow>[, next character or <eow>])
        pub fn check(word: &str, g: bool) -> Result<(), String> {
            let cs = CS::new(word, g);
            let chars: Vec<&str> = (0..cs.len()).map(|i| cs.get(i).unwrap()).collect();
            let at = |k: isize| -> &str { if k < 0 { "<bow>" } else if k as usize >= chars.len() { "<eow>" } else { chars[k as usize] } };
            for idx in 0..=chars.len() {
                // a table that contains exactly the expected context
                let mut ins = HashMap::new();
                ins.insert((Cow::Owned(at(idx as isize - 1).to_string()), Cow::Owned(at(idx as isize).to_string())), (vec!["x".to_string()], vec![1.0]));
                let ie = InsertEdits { insertions: ins };
                let r = std::panic::catch_unwind(std::panic::AssertUnwindSafe(|| ie.get_edits(&cs, &idx).is_some()));
                match r {
                    Err(_) => return Err(format!("InsertEdits::get_edits panics for word {word:?} at position {idx}")),
                    Ok(false) => return Err(format!("InsertEdits::get_edits({word:?}, {idx}) does not look up the context ({:?}, {:?})", at(idx as isize - 1), at(idx as isize))),
                    Ok(true) => {}
                }
                if idx < chars.len() {
                    let mut rep = HashMap::new();
                    rep.insert((Cow::Owned(at(idx as isize - 1).to_string()), Cow::Owned(at(idx as isize).to_string()), Cow::Owned(at(idx as isize + 1).to_string())), (vec!["x".to_string()], vec![1.0]));
                    let re = ReplaceEdits { replacements: rep };
                    let r = std::panic::catch_unwind(std::panic::AssertUnwindSafe(|| re.get_edits(&cs, &idx).is_some()));
                    match r {
                        Err(_) => return Err(format!("ReplaceEdits::get_edits panics for word {word:?} at position {idx}")),
                        Ok(false) => return Err(format!("ReplaceEdits::get_edits({word:?}, {idx}) does not look up the right context")),
                        Ok(true) => {}
                    }
                }
            }
            Ok(())
        }

        // ---- edit_word: the statement of C15 for one call, decided by an oracle built from the statement
        struct FixedEdits { table: EditsAndWeights }
        impl<'s> GetEdits<'s> for FixedEdits {
            fn get_edits<'a: 's>(&'s self, _: &CS<'a>, _: &usize) -> Option<&'s EditsAndWeights> { Some(&self.table) }
        }
        fn chars_of(s: &str, g: bool) -> Vec<String> { let cs = CS::new(s, g); (0..cs.len()).map(|i| cs.get(i).unwrap().to_string()).collect() }
        fn set_of(v: impl IntoIterator<Item = usize>) -> std::collections::BTreeSet<usize> { v.into_iter().collect() }

        /// kinds: bit 0 insert, 1 delete, 2 replace, 3 swap
        pub fn check_edit(word: &str, g: bool, kinds: u8, excl: &[usize], ins: &str, rep: &str, seed: u64) -> Result<(), String> {
            use rand::SeedableRng;
            let mut rng = rand_chacha::ChaCha8Rng::seed_from_u64(seed);
            let it = FixedEdits { table: (vec![ins.to_string()], vec![1.0]) };
            let rt = FixedEdits { table: (vec![rep.to_string()], vec![1.0]) };
            let del = DeleteEdits { full_delete: true, can_delete: |_: &str| true };
            let swp = SwapEdits { can_swap: |_: &str, _: &str| true };
            let ex0 = set_of(excl.iter().copied());
            let what = format!("edit_word({word:?}, graphemes={g}, kinds={kinds:#06b}, excluded={ex0:?}, insert {ins:?}, replace {rep:?}, seed {seed})");
            let r = std::panic::catch_unwind(std::panic::AssertUnwindSafe(|| {
                edit_word(
                    word, g, &mut rng,
                    if kinds & 1 != 0 { Some(&it) } else { None },
                    if kinds & 2 != 0 { Some(&del) } else { None },
                    if kinds & 4 != 0 { Some(&rt) } else { None },
                    if kinds & 8 != 0 { Some(&swp) } else { None },
                    Some(excl.iter().copied().collect()),
                )
            }));
            let (out, ex1) = match r { Ok(v) => v, Err(_) => return Err(format!("{what} panics")) };
            let ex1 = set_of(ex1);
            let f = chars_of(word, g);
            let n = f.len();
            let cat = |parts: &[&[String]]| -> String { parts.iter().flat_map(|p| p.iter()).cloned().collect() };
            if out == word && ex1 == ex0 { return Ok(()); }
            let mut ok = false;
            if kinds & 1 != 0 {
                let l = chars_of(ins, g).len();
                for i in 0..=n {
                    if ex0.contains(&i) || (i > 0 && ex0.contains(&(i - 1))) { continue; }
                    let o = cat(&[&f[..i], &[ins.to_string()], &f[i..]]);
                    let e: std::collections::BTreeSet<usize> = ex0.iter().map(|&x| if x >= i { x + l } else { x }).chain(i..i + l).collect();
                    ok |= o == out && e == ex1 && e.iter().all(|&x| x < n + l);
                }
            }
            if kinds & 2 != 0 {
                for i in 0..n {
                    if ex0.contains(&i) { continue; }
                    let o = cat(&[&f[..i], &f[i + 1..]]);
                    let e: std::collections::BTreeSet<usize> = ex0.iter().map(|&x| if x > i { x - 1 } else { x }).collect();
                    ok |= o == out && e == ex1 && e.iter().all(|&x| x < n - 1);
                }
            }
            if kinds & 4 != 0 {
                let l = chars_of(rep, g).len();
                for i in 0..n {
                    if ex0.contains(&i) { continue; }
                    let o = cat(&[&f[..i], &[rep.to_string()], &f[i + 1..]]);
                    let e: std::collections::BTreeSet<usize> = ex0.iter().map(|&x| if x > i { x + l - 1 } else { x }).chain(i..i + l).collect();
                    ok |= o == out && e == ex1 && e.iter().all(|&x| x < n - 1 + l);
                }
            }
            if kinds & 8 != 0 && n > 1 {
                for i in 0..n - 1 {
                    if ex0.contains(&i) || ex0.contains(&(i + 1)) { continue; }
                    let o = cat(&[&f[..i], &[f[i + 1].clone()], &[f[i].clone()], &f[i + 2..]]);
                    let e: std::collections::BTreeSet<usize> = ex0.iter().copied().chain([i, i + 1]).collect();
                    ok |= o == out && e == ex1;
                }
            }
            if ok { Ok(()) } else { Err(format!("{what} returned ({out:?}, {ex1:?}): neither unchanged nor exactly one edit of an enabled kind at a non-excluded position with the re-indexed exclusion set")) }
        }

        pub fn replay(input: &Value) -> Result<(), String> {
            if input.get("kinds").is_some() {
                let excl: Vec<usize> = input["excluded"].as_array().map(|a| a.iter().filter_map(|x| x.as_u64()).map(|x| x as usize).collect()).unwrap_or_default();
                return check_edit(input["word"].as_str().ok_or("word")?, input["use_graphemes"].as_bool().unwrap_or(true),
                    input["kinds"].as_u64().unwrap_or(15) as u8, &excl, input["insert"].as_str().unwrap_or("x"), input["replace"].as_str().unwrap_or("y"),
                    input["seed"].as_u64().unwrap_or(0));
            }
            check(input["word"].as_str().ok_or("word")?, input["use_graphemes"].as_bool().unwrap_or(true))
        }

        pub fn search() -> Option<(Value, String)> {
            for w in ["", "a", "ab", "a\u{308}b", "abc"] {
                for g in [true, false] {
                    if let Err(e) = check(w, g) {
                        return Some((json!({"word": w, "use_graphemes": g}), e));
                    }
                }
            }
            // edit_word: small words x enabled kinds x exclusion sets inside the word x edit strings x seeds
            for w in ["", "a", "ab", "abc", "abcde", "a\u{308}bc"] {
                for g in [true, false] {
                    let n = chars_of(w, g).len();
                    for kinds in 0u8..16 {
                        for mask in 0u32..(1 << n) {
                            let excl: Vec<usize> = (0..n).filter(|i| mask & (1 << i) != 0).collect();
                            for (ins, rep) in [("x", "y"), ("xy", ""), ("e\u{301}", "yz")] {
                                for seed in 0..3u64 {
                                    if let Err(e) = check_edit(w, g, kinds, &excl, ins, rep, seed) {
                                        return Some((json!({"word": w, "use_graphemes": g, "kinds": kinds, "excluded": excl, "insert": ins, "replace": rep, "seed": seed}), e));
                                    }
                                }
                            }
                        }
                    }
                }
            }
            None
        }
    }


    // ------------------------------------------------------------------------------- C13
    mod c13 {
        use super::*;
        use crate::metrics::binary_f1;

        /// F-beta through the public binary_f1 on vectors with the given four-way counts (this reaches metrics::_f1)
        pub fn check(tp: usize, fp: usize, fn_: usize, beta: f64) -> Result<(), String> {
            let mut p = vec![];
            let mut t = vec![];
            for _ in 0..tp { p.push(true); t.push(true); }
            for _ in 0..fp { p.push(true); t.push(false); }
            for _ in 0..fn_ { p.push(false); t.push(true); }
            let (f1, prec, rec) = binary_f1(&p, &t, beta).map_err(|e| e.to_string())?;
            for (name, v) in [("f1", f1), ("precision", prec), ("recall", rec)] {
                if !v.is_finite() || !(0.0..=1.0).contains(&v) {
                    return Err(format!("tp={tp} fp={fp} fn={fn_} beta={beta}: {name} = {v} is not a finite value in [0,1]"));
                }
            }
            if tp > 0 {
                // F-beta from the counts: (1 + b^2) tp / ((1 + b^2) tp + b^2 fn + fp)
                let b2 = beta * beta;
                let def = ((1.0 + b2) * tp as f64) / ((1.0 + b2) * tp as f64 + b2 * fn_ as f64 + fp as f64);
                if (f1 - def).abs() > 1e-9 {
                    return Err(format!("tp={tp} fp={fp} fn={fn_} beta={beta}: F-beta = {f1}, defining formula gives {def}"));
                }
            }
            if fp == 0 && fn_ == 0 && tp > 0 && (f1, prec, rec) != (1.0, 1.0, 1.0) {
                return Err(format!("tp={tp} fp=0 fn=0: expected (1,1,1), got ({f1},{prec},{rec})"));
            }
            if tp == 0 && (f1, prec, rec) != (0.0, 0.0, 0.0) {
                return Err(format!("tp=0 fp={fp} fn={fn_}: expected (0,0,0), got ({f1},{prec},{rec})"));
            }
            Ok(())
        }

        pub fn replay(input: &Value) -> Result<(), String> {
            match input["what"].as_str() {
                Some("ws") => {
                    let tr: Vec<(String, String, String)> = input["triples"].as_array().map(|a| a.iter().map(|x| (x[0].as_str().unwrap_or("").to_string(), x[1].as_str().unwrap_or("").to_string(), x[2].as_str().unwrap_or("").to_string())).collect()).unwrap_or_default();
                    return check_ws(&tr, input["mode"].as_u64().unwrap_or(2) as usize, input["seq_avg"].as_bool().unwrap_or(true), input["beta"].as_f64().unwrap_or(1.0), input["graphemes"].as_bool().unwrap_or(true));
                }
                Some("med") => {
                    let ps: Vec<(String, String)> = input["pairs"].as_array().map(|a| a.iter().map(|x| (x[0].as_str().unwrap_or("").to_string(), x[1].as_str().unwrap_or("").to_string())).collect()).unwrap_or_default();
                    return check_med(&ps, input["graphemes"].as_bool().unwrap_or(true));
                }
                Some("spelling") => {
                    return check_spelling(input["input"].as_str().unwrap_or(""), input["pred"].as_str().unwrap_or(""), input["target"].as_str().unwrap_or(""), input["seq_avg"].as_bool().unwrap_or(true), input["graphemes"].as_bool().unwrap_or(true)).map_err(|e| e.1);
                }
                _ => {}
            }
            check(
                input["tp"].as_u64().unwrap_or(0) as usize,
                input["fp"].as_u64().unwrap_or(0) as usize,
                input["fn_"].as_u64().unwrap_or(0) as usize,
                input["beta"].as_f64().unwrap_or(1.0),
            )
        }

        // ---- whitespace_correction_f1 against an oracle built from the statement (set comparison of the selected operations)
        use crate::metrics::{spelling_correction_f1, whitespace_correction_f1, WhitespaceCorrectionMode};
        use crate::whitespace::{operations, Operation};

        fn fbeta(tp: usize, fp: usize, fn_: usize, beta: f64) -> (f64, f64, f64) {
            let p = tp as f64 / (tp + fp).max(1) as f64;
            let r = tp as f64 / (tp + fn_).max(1) as f64;
            let b2 = beta * beta;
            (if p + r > 0.0 { (1.0 + b2) * p * r / (b2 * p + r) } else { 0.0 }, p, r)
        }
        fn mode_of(m: usize) -> WhitespaceCorrectionMode {
            match m { 0 => WhitespaceCorrectionMode::Insertions, 1 => WhitespaceCorrectionMode::Deletions, _ => WhitespaceCorrectionMode::InsertionsAndDeletions }
        }
        fn selected(ops: &[Operation], m: usize) -> std::collections::BTreeSet<(usize, u8)> {
            ops.iter().enumerate().filter_map(|(i, op)| match op {
                Operation::Insert if m != 1 => Some((i, 1u8)),
                Operation::Delete if m != 0 => Some((i, 2u8)),
                _ => None,
            }).collect()
        }
        pub fn check_ws(triples: &[(String, String, String)], m: usize, seq_avg: bool, beta: f64, g: bool) -> Result<(), String> {
            let what = format!("whitespace_correction_f1({triples:?}, beta={beta}, sequence_averaged={seq_avg}, mode={m}, graphemes={g})");
            let (i, p, t): (Vec<&str>, Vec<&str>, Vec<&str>) = (triples.iter().map(|x| x.0.as_str()).collect(), triples.iter().map(|x| x.1.as_str()).collect(), triples.iter().map(|x| x.2.as_str()).collect());
            let r = std::panic::catch_unwind(std::panic::AssertUnwindSafe(|| whitespace_correction_f1(&i, &p, &t, beta, seq_avg, mode_of(m), g)));
            let got = match r { Err(_) => return Err(format!("{what} panics")), Ok(Err(e)) => return Err(format!("{what} failed: {e}")), Ok(Ok((f, _))) => f };
            let mut per = vec![];
            for (inp, pred, tgt) in triples {
                let gt = selected(&operations(inp, tgt, g).map_err(|e| e.to_string())?, m);
                let pr = selected(&operations(inp, pred, g).map_err(|e| e.to_string())?, m);
                per.push((gt.is_empty() && pr.is_empty(), gt.intersection(&pr).count(), pr.difference(&gt).count(), gt.difference(&pr).count()));
            }
            let want = if seq_avg {
                let n = per.len().max(1) as f64;
                let mut s = (0.0, 0.0, 0.0);
                for &(e, tp, fp, fn_) in &per { let v = if e { (1.0, 1.0, 1.0) } else { fbeta(tp, fp, fn_, beta) }; s = (s.0 + v.0, s.1 + v.1, s.2 + v.2); }
                (s.0 / n, s.1 / n, s.2 / n)
            } else {
                fbeta(per.iter().map(|x| x.1).sum(), per.iter().map(|x| x.2).sum(), per.iter().map(|x| x.3).sum(), beta)
            };
            for (a, b) in [(got.0, want.0), (got.1, want.1), (got.2, want.2)] {
                if !a.is_finite() || (a - b).abs() > 1e-9 { return Err(format!("{what} = {got:?}, the set comparison of the selected operations gives {want:?}")); }
            }
            Ok(())
        }
        /// spelling_correction_f1: never panics, values finite in [0,1]; prediction == target scores no FP/FN
        pub fn check_spelling(input: &str, pred: &str, target: &str, seq_avg: bool, g: bool) -> Result<(), (String, String)> {
            let what = format!("spelling_correction_f1([{input:?}], [{pred:?}], [{target:?}], beta=1, sequence_averaged={seq_avg}, graphemes={g})");
            let r = std::panic::catch_unwind(std::panic::AssertUnwindSafe(|| spelling_correction_f1(&[input], &[pred], &[target], 1.0, seq_avg, g)));
            let words = |s: &str| s.split_whitespace().count();
            let got = match r {
                Err(_) => {
                    // the pinned tree's documented defect: the prediction drops or adds whole words (no character of the
                    // word survives / comes from the input), which _group_words' closing assertion does not allow for
                    let class = if words(pred) == 0 || words(input) == 0 { "spelling-panic-empty-side" } else { "spelling-panic" };
                    return Err((class.to_string(), format!("{what} panics")));
                }
                Ok(Err(e)) => return Err(("spelling-error".into(), format!("{what} failed: {e}"))),
                Ok(Ok((f, _))) => f,
            };
            for v in [got.0, got.1, got.2] { if !v.is_finite() || !(0.0..=1.0).contains(&v) { return Err(("spelling-range".into(), format!("{what} = {got:?} is not finite in [0,1]"))); } }
            // no false positives / negatives: P = R = tp / max(tp, 1), i.e. both 1 (and F = 1) or, with nothing counted as corrected, both 0
            if pred == target && got != (1.0, 1.0, 1.0) && got != (0.0, 0.0, 0.0) { return Err(("spelling-identity".into(), format!("{what} = {got:?}, a prediction equal to the target must have no false positives or negatives"))); }
            // an unchanged prediction of an erroneous input has zero true positives (micro averaging: recall = tp / max(tp + fn, 1))
            if !seq_avg && pred == input && input != target && got.2 != 0.0 { return Err(("spelling-unchanged".into(), format!("{what} = {got:?}, an unchanged prediction must have zero true positives"))); }
            Ok(())
        }

        /// mean (normalised) edit distance equals its defining formula: the mean of edit::distance over the pairs
        pub fn check_med(pairs: &[(String, String)], g: bool) -> Result<(), String> {
            use crate::edit::distance;
            use crate::metrics::{mean_edit_distance, mean_normalized_edit_distance};
            let (a, b): (Vec<&str>, Vec<&str>) = (pairs.iter().map(|p| p.0.as_str()).collect(), pairs.iter().map(|p| p.1.as_str()).collect());
            for normalized in [false, true] {
                let got = if normalized { mean_normalized_edit_distance(&a, &b, g) } else { mean_edit_distance(&a, &b, g) }.map_err(|e| e.to_string())?;
                let want: f64 = pairs.iter().map(|(x, y)| distance(x, y, g, false, false, normalized)).sum::<f64>() / pairs.len().max(1) as f64;
                if !got.is_finite() || (got - want).abs() > 1e-9 {
                    return Err(format!("mean{} edit distance of {pairs:?} (graphemes={g}) = {got}, the mean of the pairwise distances is {want}", if normalized { " normalized" } else { "" }));
                }
            }
            Ok(())
        }

        pub fn search_all() -> (Vec<(Value, String, String)>, usize) {
            let mut found: Vec<(Value, String, String)> = vec![];
            let mut cases = 0usize;
            // mean edit distances: clean lower-case ASCII sentences (clean / normalize inside the function are the identity on them)
            let ws = ["abc", "xyz", "this is a tset", "this is a test", "same", ""];
            for g in [true, false] { for i in 0..ws.len() { for j in 0..ws.len() { for k in 0..ws.len() {
                let pairs = vec![(ws[i].to_string(), ws[j].to_string()), (ws[k].to_string(), ws[(i + j) % ws.len()].to_string())];
                cases += 1;
                if let Err(e) = check_med(&pairs, g) {
                    if !found.iter().any(|(_, _, c)| c == "mean-edit-distance") {
                        let ps: Vec<Vec<String>> = pairs.iter().map(|p| vec![p.0.clone(), p.1.clone()]).collect();
                        found.push((json!({"what": "med", "pairs": ps, "graphemes": g}), e, "mean-edit-distance".to_string()));
                    }
                }
            } } } }
            // whitespace: inputs = the non-whitespace text "abcd" with every placement of single spaces
            let base = ["a", "b", "c", "d"];
            let variants: Vec<String> = (0u32..8).map(|m| { let mut s = String::new(); for (k, c) in base.iter().enumerate() { if k > 0 && m & (1 << (k - 1)) != 0 { s.push(' '); } s.push_str(c); } s }).collect();
            let mut triples = vec![];
            for i in &variants { for p in &variants { for t in &variants { triples.push((i.clone(), p.clone(), t.clone())); } } }
            for m in 0..3usize { for seq_avg in [true, false] { for g in [true, false] { for beta in [1.0, 0.5] {
                for (k, tr) in triples.iter().enumerate() {
                    for batch in [vec![tr.clone()], vec![tr.clone(), triples[(k * 31 + 7) % triples.len()].clone()]] {
                        cases += 1;
                        if let Err(e) = check_ws(&batch, m, seq_avg, beta, g) {
                            if !found.iter().any(|(_, _, c)| c == "ws-counts") {
                                let b: Vec<Vec<String>> = batch.iter().map(|x| vec![x.0.clone(), x.1.clone(), x.2.clone()]).collect();
                                found.push((json!({"what": "ws", "triples": b, "mode": m, "seq_avg": seq_avg, "graphemes": g, "beta": beta}), e, "ws-counts".to_string()));
                            }
                        }
                    }
                }
            } } } }
            // spelling: sentences over the words {ab, cd, abcd, x}
            let sents = ["", "ab", "ab cd", "abcd", "ab cd x", "a b cd", "x", "ab x", "abcdx"];
            for i in sents { for p in sents { for t in sents { for seq_avg in [true, false] { for g in [true, false] {
                cases += 1;
                if let Err((class, e)) = check_spelling(i, p, t, seq_avg, g) {
                    if !found.iter().any(|(_, _, c)| *c == class) {
                        found.push((json!({"what": "spelling", "input": i, "pred": p, "target": t, "seq_avg": seq_avg, "graphemes": g}), e, class));
                    }
                }
            } } } } }
            (found, cases)
        }

        pub fn search() -> Option<(Value, String)> {
            for beta in [0.5, 1.0, 2.0] {
                for tp in 0..6 { for fp in 0..6 { for fn_ in 0..6 {
                    if let Err(e) = check(tp, fp, fn_, beta) {
                        return Some((json!({"tp": tp, "fp": fp, "fn_": fn_, "beta": beta}), e));
                    }
                } } }
            }
            None
        }
    }

    // ------------------------------------------------------------------------------- C14
    mod c14 {
        use super::*;
        use crate::data::preprocessing::{preprocessing, Part, PreprocessingFnConfig};
        use crate::data::{TextDataInfo, TrainData};
        use crate::unicode::CS;
        use crate::whitespace::{operations, repair};

        /// TrainData's fields are private to crate::data; the derived Debug output is the only in-crate view of them
        fn unescape(s: &str) -> String {
            let mut out = String::new();
            let mut it = s.chars().peekable();
            while let Some(c) = it.next() {
                if c != '\\' { out.push(c); continue; }
                match it.next() {
                    Some('n') => out.push('\n'), Some('r') => out.push('\r'), Some('t') => out.push('\t'), Some('0') => out.push('\0'),
                    Some('u') => {
                        it.next();
                        let mut h = String::new();
                        for d in it.by_ref() { if d == '}' { break; } h.push(d); }
                        out.push(char::from_u32(u32::from_str_radix(&h, 16).unwrap()).unwrap());
                    }
                    Some(o) => out.push(o),
                    None => {}
                }
            }
            out
        }
        fn input_of(d: &TrainData) -> String {
            let dbg = format!("{:?}", d);
            let a = dbg.find("input: \"").unwrap() + 8;
            let b = dbg.rfind("\", target: \"").unwrap();
            unescape(&dbg[a..b])
        }

        fn nonws(s: &str, g: bool) -> Vec<String> {
            CS::new(s, g).chars().filter(|c| !c.is_whitespace()).map(|c| c.str.to_string()).collect()
        }
        fn count_ws(s: &str, g: bool) -> usize { CS::new(s, g).chars().filter(|c| c.is_whitespace()).count() }

        /// Is the character sequence of `out` the corrupted character sequence?  `out` is parsed against the characters of
        /// `text` (each kept, dropped if whitespace, or preceded by one inserted space); the pieces must be exactly the
        /// characters of `out`.  None: `out` is not a whitespace edit of `text` at all.
        fn segmentation_preserved(text: &str, out: &str, g: bool) -> Option<bool> {
            let mut pieces: Vec<String> = vec![];
            let mut j = 0usize;
            for c in CS::new(text, g).chars() {
                let rest = &out[j..];
                if c.is_whitespace() {
                    if rest.starts_with(c.str) { pieces.push(c.str.to_string()); j += c.str.len(); }
                } else if rest.starts_with(c.str) {
                    pieces.push(c.str.to_string()); j += c.str.len();
                } else if rest.starts_with(' ') && rest[1..].starts_with(c.str) {
                    pieces.push(" ".to_string()); pieces.push(c.str.to_string()); j += 1 + c.str.len();
                } else {
                    return None;
                }
            }
            if j != out.len() { return None; }
            let got: Vec<String> = CS::new(out, g).chars().map(|c| c.str.to_string()).collect();
            Some(got == pieces)
        }

        /// the statement of C14 at STRING level for one (clean) text; Err((class, message))
        pub fn check_classified(text: &str, iw: f64, dw: f64, g: bool, seed: u64) -> Result<(), (String, String)> {
            match check(text, iw, dw, g, seed) {
                Ok(()) => Ok(()),
                Err(e) => {
                    let f = preprocessing(PreprocessingFnConfig::WhitespaceCorruption(Part::Input, iw, dw, g));
                    let out = f(TrainData::new(text.to_string(), None), TextDataInfo { seed, ..Default::default() }).map(|(d, _)| input_of(&d)).unwrap_or_default();
                    let class = if g && segmentation_preserved(text, &out, g) == Some(false) { "grapheme-resegmentation" } else { "other" };
                    Err((class.to_string(), e))
                }
            }
        }

        /// the statement of C14 at STRING level for one (clean) text
        pub fn check(text: &str, iw: f64, dw: f64, g: bool, seed: u64) -> Result<(), String> {
            let f = preprocessing(PreprocessingFnConfig::WhitespaceCorruption(Part::Input, iw, dw, g));
            let run = || -> Result<(String, String), String> {
                let (d, _) = f(TrainData::new(text.to_string(), None), TextDataInfo { seed, ..Default::default() }).map_err(|e| e.to_string())?;
                let dbg = format!("{:?}", d);
                let t0 = dbg.rfind("\", target: \"").unwrap() + 12;
                Ok((input_of(&d), unescape(&dbg[t0..dbg.len() - 3])))
            };
            let (out, target) = run()?;
            let what = format!("corrupt_whitespace(iw={iw}, dw={dw}, graphemes={g}, seed={seed}) on {text:?} gave {out:?}");
            if target != text { return Err(format!("{what}: target changed to {target:?}")); }
            if run()?.0 != out { return Err(format!("{what}: not deterministic in (text, seed)")); }
            // "a deterministic function of (text, seed)": nothing else in the item's info may matter
            for file_idx in [1usize, 3] {
                let mut marks = HashMap::new();
                marks.insert("k".to_string(), "v".to_string());
                let (d2, _) = f(TrainData::new(text.to_string(), None), TextDataInfo { seed, file_idx, marks }).map_err(|e| e.to_string())?;
                if input_of(&d2) != out { return Err(format!("{what}, but {:?} for the same text and seed with file_idx={file_idx}: not a function of (text, seed)", input_of(&d2))); }
            }
            if nonws(&out, g) != nonws(text, g) { return Err(format!("{what}: non-whitespace character sequence changed")); }
            if crate::text::clean(&out, g) != out { return Err(format!("{what}: output is not whitespace-clean")); }
            match operations(&out, text, g) {
                Ok(ops) => {
                    if ops.len() != CS::new(&out, g).len() { return Err(format!("{what}: {} labels for {} input characters", ops.len(), CS::new(&out, g).len())); }
                    match repair(&out, &ops, g) {
                        Ok(r) if r == text => {}
                        other => return Err(format!("{what}: repair gave {other:?}")),
                    }
                }
                Err(e) => return Err(format!("{what}: operations failed: {e}")),
            }
            if dw == 0.0 && count_ws(&out, g) < count_ws(text, g) { return Err(format!("{what}: whitespace disappeared with delete probability 0")); }
            if iw == 0.0 && count_ws(&out, g) > count_ws(text, g) { return Err(format!("{what}: whitespace appeared with insert probability 0")); }
            Ok(())
        }

        pub fn replay(input: &Value) -> Result<(), String> {
            if input["what"].as_str() == Some("task") {
                return check_task(input["text"].as_str().unwrap_or(""), input["iw"].as_f64().unwrap_or(0.5), input["dw"].as_f64().unwrap_or(0.5),
                                  input["graphemes"].as_bool().unwrap_or(true), input["seed"].as_u64().unwrap_or(0));
            }
            check(
                input["text"].as_str().unwrap_or(""),
                input["iw"].as_f64().unwrap_or(0.5),
                input["dw"].as_f64().unwrap_or(0.5),
                input["graphemes"].as_bool().unwrap_or(true),
                input["seed"].as_u64().unwrap_or(0),
            )
        }

        /// "the whitespace-correction task always obtains one label per input character": train_task(WhitespaceCorrection)
        /// on the corrupted item yields as many labels as token ids (character tokenizer, <bos>/<eos>)
        pub fn check_task(text: &str, iw: f64, dw: f64, g: bool, seed: u64) -> Result<(), String> {
            use crate::data::task::{train_task, TrainTaskConfig};
            use crate::data::TrainTaskInput;
            use crate::tokenization::{CharTokenizerConfig, SpecialConfig, TokenizeConfig, TokenizerConfig};
            let f = preprocessing(PreprocessingFnConfig::WhitespaceCorruption(Part::Input, iw, dw, g));
            let (item, _) = f(TrainData::new(text.to_string(), None), TextDataInfo { seed, ..Default::default() }).map_err(|e| e.to_string())?;
            let task = train_task(TrainTaskConfig::WhitespaceCorrection(g, TokenizerConfig {
                tokenize: TokenizeConfig::Character(CharTokenizerConfig { use_graphemes: g, unk_token: "<unk>".to_string() }),
                special: SpecialConfig { prefix: vec!["<bos>".to_string()], suffix: vec!["<eos>".to_string()], ..Default::default() },
            }));
            let what = format!("train_task(WhitespaceCorrection) after corrupt_whitespace(iw={iw}, dw={dw}, graphemes={g}, seed={seed}) on {text:?}");
            match task(&item) {
                Ok(TrainTaskInput::SequenceClassification { token_ids, labels, .. }) => {
                    let n = CS::new(&input_of(&item), g).len() + 2;
                    if token_ids.len() != labels.len() || labels.len() != n {
                        return Err(format!("{what}: {} token ids, {} labels, the input has {} characters + prefix + suffix = {n}", token_ids.len(), labels.len(), n - 2));
                    }
                    Ok(())
                }
                Ok(_) => Err(format!("{what}: not a sequence classification input")),
                Err(e) => Err(format!("{what} failed: {e}")),
            }
        }

        /// BOUND: every whitespace-clean text of at most 4 code points over the alphabet below (letters, space, CR, LF, a
        /// control character, a combining mark, ZWJ, a Prepend character, a regional indicator, Hangul L and V jamo, an
        /// emoji), both modes, probabilities (1,0) (0,1) (0.5,0.5), seeds 0..3
        pub const ALPHABET: [&str; 13] = ["a", "b", " ", "\r", "\n", "\u{1}", "\u{301}", "\u{200d}", "\u{600}", "\u{1f1e9}", "\u{1100}", "\u{1161}", "\u{1f600}"];
        /// bounded exploration: the first failing input of every class, and the number of cases run
        pub fn search_all() -> (Vec<(Value, String, String)>, usize) {
            let mut frontier = vec![String::new()];
            let mut texts = vec![String::new()];
            for _ in 0..4 {
                let mut next = vec![];
                for t in &frontier { for a in ALPHABET { next.push(format!("{t}{a}")); } }
                texts.extend(next.iter().cloned());
                frontier = next;
            }
            let mut found: Vec<(Value, String, String)> = vec![];
            let mut cases = 0usize;
            for g in [true, false] {
                for t in &texts {
                    if crate::text::clean(t, g) != *t { continue; }
                    for (iw, dw) in [(1.0, 0.0), (0.0, 1.0), (0.5, 0.5)] {
                        for seed in 0..3u64 {
                            cases += 1;
                            if let Err((class, e)) = check_classified(t, iw, dw, g, seed) {
                                if !found.iter().any(|(_, _, c)| *c == class) {
                                    found.push((json!({"text": t, "iw": iw, "dw": dw, "graphemes": g, "seed": seed}), e, class));
                                }
                            }
                        }
                    }
                }
            }
            // the task function: texts that literally contain special-token spellings, all probabilities
            for t in ["a b", "fill <pad> x", "<eos>", "a<bos> b<unk>", "x <pad><eos> y z"] {
                for g in [true, false] { for (iw, dw) in [(1.0, 0.0), (0.0, 1.0), (0.5, 0.5)] { for seed in 0..3u64 {
                    cases += 1;
                    if let Err(e) = check_task(t, iw, dw, g, seed) {
                        if !found.iter().any(|(_, _, c)| c == "task-labels") {
                            found.push((json!({"what": "task", "text": t, "iw": iw, "dw": dw, "graphemes": g, "seed": seed}), e, "task-labels".to_string()));
                        }
                    }
                } } }
            }
            (found, cases)
        }
        pub fn search() -> Option<(Value, String)> {
            search_all().0.into_iter().find(|(_, _, c)| c != "grapheme-resegmentation").map(|(i, e, _)| (i, e))
        }
    }

    // ------------------------------------------------------------------------------- C17
    mod c17 {
        use super::*;
        use crate::data::loading::Tensorize;
        use crate::data::{TensorizedTrainTaskInput, TrainData, TrainItem, TrainTaskInput};
        use crate::tokenization::*;
        use crate::unicode::CS;
        use numpy::ndarray::{Array1, Array2};

        fn tok(g: bool, code_points: bool, fix: bool, sum: bool) -> anyhow::Result<ByteTokenizer> {
            ByteTokenizer::new(
                ByteTokenizerConfig { use_graphemes: g, pad_to_multiple_of: None,
                    groups: if code_points { ByteGroups::CodePoints } else { ByteGroups::Bytes },
                    aggregation: if sum { GroupAggregation::Sum } else { GroupAggregation::Mean } },
                SpecialConfig { pad: "<pad>".to_string(), tokens: vec!["<unk>".into(), "<bos>".into(), "<eos>".into(), "<pad>".into()],
                    prefix: if fix { vec!["<bos>".into()] } else { vec![] }, suffix: if fix { vec!["<eos>".into()] } else { vec![] } },
            )
        }
        fn n_specials(text: &str) -> (usize, String) {
            let mut rest = text.to_string();
            let mut n = 0;
            for t in ["<unk>", "<bos>", "<eos>", "<pad>"] { n += rest.matches(t).count(); rest = rest.replace(t, "\u{0}"); }
            (n, rest)
        }

        /// groups partition the ids: nested lengths sum to the number of ids, one group per character / special / prefix / suffix
        fn grouping_of(t: &ByteTokenizer, text: &str, what: &str) -> Result<(Vec<u32>, Grouping), String> {
            let r = std::panic::catch_unwind(std::panic::AssertUnwindSafe(|| t.tokenize(text, false)));
            let tk = match r { Err(_) => return Err(format!("{what}: tokenize({text:?}) panics")), Ok(Err(e)) => return Err(format!("{what}: tokenize({text:?}) failed: {e}")), Ok(Ok(t)) => t };
            match tk.info {
                TokenizationInfo::TokenGroups(m) => {
                    if m.len() != 1 { return Err(format!("{what}: {} groupings for {text:?}", m.len())); }
                    Ok((tk.token_ids, m.into_iter().next().unwrap().1))
                }
                _ => Err(format!("{what}: tokenize({text:?}) returned no token groups")),
            }
        }
        pub fn check_groups(text: &str, g: bool, code_points: bool, fix: bool, sum: bool) -> Result<(), String> {
            let what = format!("ByteTokenizer(graphemes={g}, code_point_groups={code_points}, prefix/suffix={fix}, sum={sum})");
            let t = tok(g, code_points, fix, sum).map_err(|e| e.to_string())?;
            let (ids, (groups, _)) = grouping_of(&t, text, &what)?;
            let total: usize = groups.iter().map(|x| x.len()).sum();
            if total != ids.len() { return Err(format!("{what}: group lengths of {text:?} sum to {total}, but there are {} token ids", ids.len())); }
            let (ns, rest) = n_specials(text);
            let chars = CS::new(&rest, g).chars().filter(|c| c.str != "\u{0}").count();
            let want = chars + ns + if fix { 2 } else { 0 };
            if groups.len() != want { return Err(format!("{what}: {} groups for {text:?}, expected one per character/special/prefix/suffix = {want}", groups.len())); }
            Ok(())
        }

        pub fn check_sparse(texts: &[&str], g: bool, code_points: bool, fix: bool, sum: bool) -> Result<(), String> { check_sparse_mixed(texts, g, code_points, fix, sum, false) }
        /// mixed: the items alternate between the given aggregation and the other one (a batch may mix groupings)
        pub fn check_sparse_mixed(texts: &[&str], g: bool, code_points: bool, fix: bool, sum: bool, mixed: bool) -> Result<(), String> {
            let what = format!("sparse matrix of {texts:?} with ByteTokenizer(graphemes={g}, code_point_groups={code_points}, prefix/suffix={fix}, sum={sum}, alternating aggregation={mixed})");
            let t = tok(g, code_points, fix, sum).map_err(|e| e.to_string())?;
            let t2 = tok(g, code_points, fix, !sum).map_err(|e| e.to_string())?;
            let mut gs = vec![];
            let mut lengths = vec![];
            for (k, x) in texts.iter().enumerate() { let (ids, gr) = grouping_of(if mixed && k % 2 == 1 { &t2 } else { &t }, x, &what)?; lengths.push(ids.len()); gs.push(gr); }
            let refs: Vec<&Grouping> = gs.iter().collect();
            let r = std::panic::catch_unwind(std::panic::AssertUnwindSafe(|| token_groups_to_sparse_coo_matrix(&refs, &lengths)));
            let m = match r { Err(_) => return Err(format!("{what}: panics")), Ok(Err(e)) => return Err(format!("{what}: failed: {e}")), Ok(Ok(m)) => m };
            let stride: usize = lengths.iter().sum();
            if m.indices.shape() != [3, stride] || m.values.len() != stride { return Err(format!("{what}: {} entries for {stride} tokens", m.values.len())); }
            let want_size = vec![texts.len(), gs.iter().map(|x| x.0.len()).max().unwrap_or(0), lengths.iter().max().copied().unwrap_or(0)];
            if m.size != want_size { return Err(format!("{what}: size {:?}, expected [batch, max groups, max tokens] = {want_size:?}", m.size)); }
            let mut seen = std::collections::HashSet::new();
            let mut sums: HashMap<(i32, i32), f32> = HashMap::new();
            for k in 0..stride {
                let (b, gi, ti) = (m.indices[[0, k]], m.indices[[1, k]], m.indices[[2, k]]);
                if b < 0 || gi < 0 || ti < 0 || b as usize >= m.size[0] || gi as usize >= m.size[1] || ti as usize >= m.size[2] || ti as usize >= lengths[b as usize] {
                    return Err(format!("{what}: entry {k} = ({b},{gi},{ti}) outside the declared size {:?}", m.size));
                }
                if !seen.insert((b, ti)) { return Err(format!("{what}: token ({b},{ti}) has more than one entry")); }
                let item_sum = gs[b as usize].1 == GroupAggregation::Sum;
                if item_sum && m.values[k] != 1.0 { return Err(format!("{what}: weight {} under sum aggregation (item {b})", m.values[k])); }
                *sums.entry((b, gi)).or_insert(0.0) += m.values[k];
            }
            for ((b, gi), s) in sums {
                if gs[b as usize].1 != GroupAggregation::Sum && (s - 1.0).abs() > 1e-4 { return Err(format!("{what}: mean weights of group ({b},{gi}) sum to {s}")); }
            }
            Ok(())
        }

        fn row_ok<T: PartialEq + Copy + std::fmt::Debug>(m: &Array2<T>, b: usize, item: &[T], pad: T) -> bool {
            item.len() <= m.ncols() && (0..m.ncols()).all(|j| m[[b, j]] == if j < item.len() { item[j] } else { pad })
        }
        /// padded id / label matrices: each item's values followed only by padding, reported lengths are the true lengths
        pub fn check_tensorize(kind: usize, lens: &[(usize, usize)]) -> Result<(), String> {
            let what = format!("tensorize(kind={kind}, (input, target) lengths {lens:?})");
            let ids = |n: usize, base: u32| -> Vec<u32> { (0..n as u32).map(|i| base + i).collect() };
            let lab = |n: usize| -> Vec<i32> { (0..n as i32).map(|i| 10 + i).collect() };
            let items: Vec<TrainItem> = lens.iter().enumerate().map(|(k, &(a, b))| {
                let input = match kind {
                    0 => TrainTaskInput::Classification { token_ids: ids(a, 1), pad_token_id: 999, label: k as i32 },
                    1 => TrainTaskInput::SequenceClassification { token_ids: ids(a, 1), pad_token_id: 999, labels: lab(a) },
                    2 => TrainTaskInput::Generation { token_ids: ids(a, 1), pad_token_id: 999, labels: lab(a) },
                    _ => TrainTaskInput::ConditionalGeneration { token_ids: ids(a, 1), pad_token_id: 999, target_token_ids: ids(b, 500), target_pad_token_id: 998, labels: lab(b) },
                };
                TrainItem::new(TrainData::new("x".into(), None), input)
            }).collect();
            let r = std::panic::catch_unwind(std::panic::AssertUnwindSafe(|| items.tensorize()));
            let out = match r { Err(_) => return Err(format!("{what} panics")), Ok(o) => o };
            let lens_ok = |l: &Array1<usize>, want: Vec<usize>| l.to_vec() == want;
            let n = lens.len();
            let a_lens: Vec<usize> = lens.iter().map(|x| x.0).collect();
            let b_lens: Vec<usize> = lens.iter().map(|x| x.1).collect();
            let bad = |msg: &str| Err(format!("{what}: {msg}"));
            match out {
                TensorizedTrainTaskInput::Classification(t, l, labels) => {
                    if kind != 0 { return bad("wrong variant"); }
                    if t.nrows() != n || !lens_ok(&l, a_lens.clone()) { return bad(&format!("reported lengths {:?}, true lengths {a_lens:?}", l.to_vec())); }
                    for b in 0..n { if !row_ok(&t, b, &ids(a_lens[b], 1), 999) { return bad("row is not the item's ids followed only by padding"); } }
                    if labels.to_vec() != (0..n as i32).collect::<Vec<_>>() { return bad("labels"); }
                }
                TensorizedTrainTaskInput::SequenceClassification(t, l, labels) | TensorizedTrainTaskInput::Generation(t, l, labels) => {
                    if kind != 1 && kind != 2 { return bad("wrong variant"); }
                    if t.nrows() != n || !lens_ok(&l, a_lens.clone()) { return bad(&format!("reported lengths {:?}, true lengths {a_lens:?}", l.to_vec())); }
                    for b in 0..n {
                        if !row_ok(&t, b, &ids(a_lens[b], 1), 999) { return bad("id row is not the item's ids followed only by padding"); }
                        if !row_ok(&labels, b, &lab(a_lens[b]), -1) { return bad("label row is not the item's labels followed only by -1"); }
                    }
                }
                TensorizedTrainTaskInput::ConditionalGeneration(t, l, tt, tl, labels) => {
                    if kind != 3 { return bad("wrong variant"); }
                    if t.nrows() != n || !lens_ok(&l, a_lens.clone()) { return bad(&format!("reported lengths {:?}, true lengths {a_lens:?}", l.to_vec())); }
                    if !lens_ok(&tl, b_lens.clone()) { return bad(&format!("reported target lengths {:?}, true lengths {b_lens:?}", tl.to_vec())); }
                    for b in 0..n {
                        if !row_ok(&t, b, &ids(a_lens[b], 1), 999) { return bad("id row"); }
                        if !row_ok(&tt, b, &ids(b_lens[b], 500), 998) { return bad("target id row"); }
                        if !row_ok(&labels, b, &lab(b_lens[b]), -1) { return bad("label row"); }
                    }
                }
            }
            Ok(())
        }

        pub fn replay(input: &Value) -> Result<(), String> {
            let b = |k: &str| input[k].as_bool().unwrap_or(false);
            match input["what"].as_str().unwrap_or("") {
                "groups" => check_groups(input["text"].as_str().unwrap_or(""), b("graphemes"), b("code_points"), b("fix"), b("sum")),
                "sparse" => {
                    let texts: Vec<&str> = input["texts"].as_array().map(|a| a.iter().filter_map(|x| x.as_str()).collect()).unwrap_or_default();
                    check_sparse_mixed(&texts, b("graphemes"), b("code_points"), b("fix"), b("sum"), b("mixed"))
                }
                _ => {
                    let lens: Vec<(usize, usize)> = input["lens"].as_array().map(|a| a.iter().map(|p| (p[0].as_u64().unwrap_or(0) as usize, p[1].as_u64().unwrap_or(0) as usize)).collect()).unwrap_or_default();
                    check_tensorize(input["kind"].as_u64().unwrap_or(0) as usize, &lens)
                }
            }
        }

        /// BOUND: texts of at most 3 pieces from {a, U+00E4, e+U+0301, CRLF, space, <bos>, flag} x 16 byte-tokenizer configs;
        /// batches of 1..3 of those texts (first 40 texts) for the sparse matrix; tensorize: 4 kinds x batches of 1..3 items
        /// with (input, target) lengths in {0,1,2,5}^2
        pub const PIECES: [&str; 7] = ["a", "\u{e4}", "e\u{301}", "\r\n", " ", "<bos>", "\u{1f1e9}\u{1f1ea}"];
        pub fn search_all() -> (Vec<(Value, String, String)>, usize) {
            let mut texts = vec![String::new()];
            let mut frontier = vec![String::new()];
            for _ in 0..3 {
                let mut next = vec![];
                for t in &frontier { for a in PIECES { next.push(format!("{t}{a}")); } }
                texts.extend(next.iter().cloned());
                frontier = next;
            }
            let mut found: Vec<(Value, String, String)> = vec![];
            let mut cases = 0usize;
            let mut add = |found: &mut Vec<(Value, String, String)>, class: &str, input: Value, e: String| {
                if !found.iter().any(|(_, _, c)| c == class) { found.push((input, e, class.to_string())); }
            };
            for m in 0u32..16 {
                let f = |k: u32| m & (1 << k) != 0;
                for t in &texts {
                    cases += 1;
                    if let Err(e) = check_groups(t, f(0), f(1), f(2), f(3)) {
                        add(&mut found, "groups", json!({"what": "groups", "text": t, "graphemes": f(0), "code_points": f(1), "fix": f(2), "sum": f(3)}), e);
                    }
                }
                let small: Vec<&str> = texts.iter().skip(1).step_by(9).take(12).map(|x| x.as_str()).collect();
                for i in 0..small.len() { for j in 0..small.len() {
                    for batch in [vec![small[i]], vec![small[i], small[j]], vec![small[j], small[i], small[(i + j) % small.len()]]] {
                        cases += 1;
                        for mixed in [false, true] {
                            if mixed && batch.len() < 2 { continue; }
                            if let Err(e) = check_sparse_mixed(&batch, f(0), f(1), f(2), f(3), mixed) {
                                add(&mut found, "sparse", json!({"what": "sparse", "texts": batch, "graphemes": f(0), "code_points": f(1), "fix": f(2), "sum": f(3), "mixed": mixed}), e);
                            }
                        }
                    }
                } }
            }
            let ls = [0usize, 1, 2, 5];
            let mut pairs = vec![];
            for a in ls { for b in ls { pairs.push((a, b)); } }
            for kind in 0..4usize {
                for i in 0..pairs.len() { for j in 0..pairs.len() {
                    for batch in [vec![pairs[i]], vec![pairs[i], pairs[j]], vec![pairs[j], pairs[i], pairs[(i * 7 + j) % pairs.len()]]] {
                        cases += 1;
                        if let Err(e) = check_tensorize(kind, &batch) {
                            let lens: Vec<Vec<usize>> = batch.iter().map(|p| vec![p.0, p.1]).collect();
                            add(&mut found, "tensorize", json!({"what": "tensorize", "kind": kind, "lens": lens}), e);
                        }
                    }
                } }
            }
            (found, cases)
        }
        pub fn search() -> Option<(Value, String)> { search_all().0.into_iter().next().map(|(i, e, _)| (i, e)) }
    }

    include!("more_probes.rs");

    // ------------------------------------------------------------------------------- C02
    mod c02 {
        use super::*;
        use crate::tokenization::*;

        /// the assumed contract of merge_bytes, through tokenize / de_tokenize: every id is a vocabulary id and decoding
        /// (special tokens ignored on both sides) gives the text without its trailing whitespace
        pub fn check(merges: &[(Vec<u8>, u32)], limit: Option<usize>, fix: bool, text: &str) -> Result<(), String> { check_with(None, merges, limit, fix, text) }
        fn check_with(cached: Option<&BPETokenizer>, merges: &[(Vec<u8>, u32)], limit: Option<usize>, fix: bool, text: &str) -> Result<(), String> {
            let what = format!("BPE(merges={:?}, max_vocab_size={limit:?}, prefix/suffix={fix})", merges.iter().map(|(k, v)| (String::from_utf8_lossy(k).to_string(), *v)).collect::<Vec<_>>());
            let built;
            let t = match cached { Some(t) => t, None => { built = super::c04::bpe_from_cfg(merges, "c02", limit, fix).map_err(|e| e.to_string())?; &built } };
            let r = std::panic::catch_unwind(std::panic::AssertUnwindSafe(|| t.tokenize(text, true)));
            let tok = match r { Err(_) => return Err(format!("{what}.tokenize({text:?}) panics")), Ok(Err(e)) => return Err(format!("{what}.tokenize({text:?}) failed: {e}")), Ok(Ok(t)) => t };
            let n = t.vocab_size() as u32;
            if let Some(id) = tok.token_ids.iter().find(|id| **id >= n) { return Err(format!("{what}.tokenize({text:?}) emits id {id}, vocabulary size {n}")); }
            let back = t.de_tokenize(&tok.token_ids, true).map_err(|e| format!("{what}: decoding the ids of {text:?} failed (not well-formed UTF-8?): {e}"))?;
            let want = text.trim_end();
            if back != want { return Err(format!("{what}: decoding tokenize({text:?}) gives {back:?}, expected the text without trailing whitespace {want:?}")); }
            Ok(())
        }
        pub fn replay(input: &Value) -> Result<(), String> {
            let merges: Vec<(Vec<u8>, u32)> = input["merges"].as_array().ok_or("merges")?.iter().map(|e| (e[0].as_str().unwrap().as_bytes().to_vec(), e[1].as_u64().unwrap() as u32)).collect();
            check(&merges, input["max_vocab_size"].as_u64().map(|x| x as usize), input["fix"].as_bool().unwrap_or(false), input["text"].as_str().unwrap_or(""))
        }
        /// BOUND: 7 merge tables (incl. multi-level, overlapping, whitespace-prefixed and multi-byte merges) x truncating
        /// max_vocab_size x every text of at most 5 pieces from {a, b, c, space, U+00E4, newline}, at most 3 pieces from
        /// {<unk>, <pad>, <bos>, space, ab} and at most 3 pieces from {U+0000, U+007F, U+0080, U+07FF, U+FFFF, U+10FFFF, a, space}
        pub fn search_all() -> (Vec<(Value, String, String)>, usize) {
            let tables: Vec<Vec<(&str, u32)>> = vec![
                vec![], vec![("ab", 0)], vec![("ab", 0), ("abc", 1)], vec![("ab", 0), ("bc", 1), ("abc", 2)],
                vec![("aa", 0), ("aaa", 1), ("aaaa", 2), (" a", 3)], vec![(" a", 0), (" ab", 1), ("ca", 2)], vec![("\u{e4}", 0), ("a\u{e4}", 1), ("bb", 2)],
            ];
            let mut texts = all_texts(&["a", "b", "c", " ", "\u{e4}", "\n"], 5);
            // texts that literally spell special tokens (plain text when special-token parsing is off)
            texts.extend(all_texts(&["<unk>", "<pad>", "<bos>", " ", "ab"], 3));
            // extreme byte / code-point values (NUL, the ends of the 1-, 2-, 3- and 4-byte UTF-8 ranges)
            texts.extend(all_texts(&["\0", "\u{7f}", "\u{80}", "\u{7ff}", "\u{ffff}", "\u{10ffff}", "a", " "], 3));
            let mut found: Vec<(Value, String, String)> = vec![];
            let mut cases = 0usize;
            for tb in &tables {
                let merges: Vec<(Vec<u8>, u32)> = tb.iter().map(|(k, v)| (k.as_bytes().to_vec(), *v)).collect();
                for limit in [None, Some(260 + tb.len() / 2)] { for fix in [false, true] {
                    let tok = super::c04::bpe_from_cfg(&merges, "c02", limit, fix).ok();
                    for (k, text) in texts.iter().enumerate() {
                        if fix && k % 4 != 0 { continue; }
                        cases += 1;
                        if let Err(e) = check_with(tok.as_ref(), &merges, limit, fix, text) {
                            if found.is_empty() {
                                let m: Vec<Value> = tb.iter().map(|(k, v)| json!([k, v])).collect();
                                found.push((json!({"merges": m, "max_vocab_size": limit, "fix": fix, "text": text}), e, "lossless".to_string()));
                            }
                        }
                    }
                } }
            }
            (found, cases)
        }
    }

    fn dispatch_replay(prop: &str, input: &Value) -> Result<(), String> {
        match prop {
            "C01" => c01::replay(input),
            "C02" => c02::replay(input),
            "C04" => c04::replay(input),
            "C12" => c12::replay(input),
            "C07" => c07::replay(input),
            "C15" => c15::replay(input),
            "C13" => c13::replay(input),
            "C14" => c14::replay(input),
            "C17" => c17::replay(input),
            "C18" => c18::replay(input),
            "C16" => c16::replay(input),
            "C11" => c11::replay(input),
            "C10" => c10::replay(input),
            "C06" => c06::replay(input),
            _ => Err(format!("no probe for {prop}")),
        }
    }

    fn dispatch_search(prop: &str) -> Option<(Value, String)> {
        match prop {
            "C01" => c01::search(),
            "C02" => c02::search_all().0.into_iter().next().map(|(i, e, _)| (i, e)),
            "C04" => c04::search(),
            "C12" => c12::search(),
            "C07" => c07::search(),
            "C15" => c15::search(),
            "C13" => c13::search(),
            "C14" => c14::search(),
            "C17" => c17::search(),
            "C18" => c18::search_all().0.into_iter().next().map(|(i, e, _)| (i, e)),
            "C16" => c16::search_all().0.into_iter().next().map(|(i, e, _)| (i, e)),
            "C11" => c11::search_all().0.into_iter().next().map(|(i, e, _)| (i, e)),
            "C10" => c10::search_all().0.into_iter().next().map(|(i, e, _)| (i, e)),
            "C06" => c06::search_all().0.into_iter().next().map(|(i, e, _)| (i, e)),
            _ => None,
        }
    }

    #[test]
    fn verif_probe() {
        let mode = std::env::var("VT_MODE").unwrap_or_default();
        let prop = std::env::var("VT_PROP").unwrap_or_default();
        match mode.as_str() {
            "replay" => {
                let path = std::env::var("VT_INPUT").expect("VT_INPUT");
                let v: Value = serde_json::from_str(&std::fs::read_to_string(path).unwrap()).unwrap();
                let input = if v.get("failing_input").map(|x| !x.is_null()).unwrap_or(false) { v["failing_input"].clone() } else { v };
                let r = std::panic::catch_unwind(|| dispatch_replay(&prop, &input));
                match r {
                    Ok(Ok(())) => println!("PROBE-OK"),
                    Ok(Err(e)) => println!("PROBE-FAIL {}", json!({"input": input, "violated": e})),
                    Err(_) => println!("PROBE-FAIL {}", json!({"input": input, "violated": "panic"})),
                }
            }
            "bounded" => {
                // bounded exploration (labelled bounded in the evidence): every failing class with its first input
                let (found, cases): (Vec<(Value, String, String)>, i64) = match prop.as_str() {
                    // older probes: one class, cases not counted (-1)
                    "C04" | "C07" | "C12" | "C15" => (dispatch_search(&prop).map(|(i, e)| vec![(i, e, "other".to_string())]).unwrap_or_default(), -1),
                    p => { let (f, c) = match p {
                    "C14" => c14::search_all(),
                    "C01" => c01::search_all(),
                    "C17" => c17::search_all(),
                    "C13" => c13::search_all(),
                    "C02" => c02::search_all(),
                    "C18" => c18::search_all(),
                    "C16" => c16::search_all(),
                    "C11" => c11::search_all(),
                    "C10" => c10::search_all(),
                    "C06" => c06::search_all(),
                    _ => (vec![], 0),
                    }; (f, c as i64) }
                };
                for (input, e, class) in &found {
                    println!("PROBE-FAIL {}", json!({"input": input, "violated": e, "class": class}));
                }
                println!("PROBE-STATS {}", json!({"cases": cases, "failing_classes": found.len()}));
                if found.is_empty() && cases != 0 { println!("PROBE-OK"); }
            }
            "search" => match dispatch_search(&prop) {
                Some((input, e)) => println!("PROBE-FAIL {}", json!({"input": input, "violated": e})),
                None => println!("PROBE-OK"),
            },
            _ => println!("PROBE-SKIP (VT_MODE not set)"),
        }
    }
}
