//! Replay / probe driver of /verif (compiled into the real crate only with `--features verif`).
//!
//! Nothing in here decides a property: properties are decided by the verifier accepting every
//! obligation.  These probes only (a) replay a concrete input against the real code to attach a
//! failing input to an obligation the verifier rejected, and (b) search small input spaces for
//! such an input.  Driver: one `#[test]` that dispatches on environment variables
//!   VT_MODE = replay | search,  VT_PROP = C04 | ...,  VT_INPUT = path of a JSON file (replay)
//! and prints lines `PROBE-FAIL <json>` (property clause violated by this input) or `PROBE-OK`.
#![allow(dead_code)]

#[cfg(test)]
mod probes {
    use serde_json::{json, Value};
    use std::collections::HashMap;

    // ------------------------------------------------------------------------------- C04
    mod c04 {
        use super::*;
        use crate::tokenization::*;
        use crate::utils::SerializeMsgPack;

        fn bpe_from(merges: &[(Vec<u8>, u32)], tag: &str) -> anyhow::Result<BPETokenizer> {
            let mut m: MergeOps = HashMap::new();
            for (k, v) in merges {
                m.insert(k.clone(), *v);
            }
            let p = std::env::temp_dir().join(format!("vt_probe_{}_{}.merges", std::process::id(), tag));
            m.save(&p)?;
            let t = BPETokenizer::new(
                BPETokenizerConfig { merge_file: p.clone(), max_vocab_size: None, use_graphemes: true },
                SpecialConfig::default(),
            );
            std::fs::remove_file(&p).ok();
            t
        }

        /// the statement of C04 for one tokenizer, through the public `Tokenize` API
        fn check_tok(t: &dyn Tokenize, what: &str) -> Result<(), String> {
            let vocab = t.get_vocab().map_err(|e| format!("{what}: get_vocab failed: {e}"))?;
            let n = t.vocab_size();
            if vocab.len() != n {
                return Err(format!("{what}: get_vocab has {} entries, vocab_size is {}", vocab.len(), n));
            }
            for id in 0..(n as u32 + 8) {
                let got = t.id_to_token(id);
                let want = vocab.get(id as usize).cloned();
                if got != want {
                    return Err(format!("{what}: id_to_token({id}) = {got:?} but get_vocab()[{id}] = {want:?}"));
                }
                if let Some(bytes) = want {
                    if let Ok(s) = std::str::from_utf8(&bytes) {
                        let back = t.token_to_id(s);
                        if back != Some(id) {
                            return Err(format!("{what}: token_to_id({s:?}) = {back:?}, expected Some({id})"));
                        }
                    }
                }
            }
            Ok(())
        }

        pub fn replay(input: &Value) -> Result<(), String> {
            let merges: Vec<(Vec<u8>, u32)> = input["merges"]
                .as_array()
                .ok_or("merges missing")?
                .iter()
                .map(|e| (e[0].as_str().unwrap().as_bytes().to_vec(), e[1].as_u64().unwrap() as u32))
                .collect();
            let t = bpe_from(&merges, "replay").map_err(|e| e.to_string())?;
            check_tok(&t, "bpe")
        }

        pub fn search() -> Option<(Value, String)> {
            let tables: Vec<Vec<(&str, u32)>> = vec![
                vec![],
                vec![("ab", 0)],
                vec![("ab", 0), ("cd", 1)],
                vec![("ab", 0), ("abc", 1), ("bc", 2)],
                vec![("aa", 0), ("aaa", 1), ("aaaa", 2), (" a", 3)],
            ];
            for tb in tables {
                let input = json!({"kind": "bpe", "merges": tb.iter().map(|(k, v)| json!([k, v])).collect::<Vec<_>>()});
                if let Err(e) = replay(&input) {
                    return Some((input, e));
                }
            }
            None
        }
    }

    fn dispatch_replay(prop: &str, input: &Value) -> Result<(), String> {
        match prop {
            "C04" => c04::replay(input),
            _ => Err(format!("no probe for {prop}")),
        }
    }

    fn dispatch_search(prop: &str) -> Option<(Value, String)> {
        match prop {
            "C04" => c04::search(),
            _ => None,
        }
    }

    #[test]
    fn verif_probe() {
        let mode = std::env::var("VT_MODE").unwrap_or_default();
        let prop = std::env::var("VT_PROP").unwrap_or_default();
        match mode.as_str() {
            "replay" => {
                let path = std::env::var("VT_INPUT").expect("VT_INPUT");
                let v: Value = serde_json::from_str(&std::fs::read_to_string(path).unwrap()).unwrap();
                let input = if v.get("failing_input").map(|x| !x.is_null()).unwrap_or(false) { v["failing_input"].clone() } else { v };
                let r = std::panic::catch_unwind(|| dispatch_replay(&prop, &input));
                match r {
                    Ok(Ok(())) => println!("PROBE-OK"),
                    Ok(Err(e)) => println!("PROBE-FAIL {}", json!({"input": input, "violated": e})),
                    Err(_) => println!("PROBE-FAIL {}", json!({"input": input, "violated": "panic"})),
                }
            }
            "search" => match dispatch_search(&prop) {
                Some((input, e)) => println!("PROBE-FAIL {}", json!({"input": input, "violated": e})),
                None => println!("PROBE-OK"),
            },
            _ => println!("PROBE-SKIP (VT_MODE not set)"),
        }
    }
}
