"""maintenance commands: freeze / gen / manifest"""
import json, os, sys
from . import weave
from .weave import VERIF

def freeze(tmpl):
    path = tmpl if os.path.isabs(tmpl) else os.path.join(VERIF, 'contracts', tmpl)
    w = weave.weave_template(path, freeze=True)
    fp = weave.frozen_path(path)
    os.makedirs(os.path.dirname(fp), exist_ok=True)
    json.dump(w['frozen'], open(fp, 'w'), indent=1)
    print('froze %d units -> %s' % (len(w['frozen']), fp))
    for u in w['units']:
        print('  %-40s ghost runs %3d  rules %s' % (u.label, u.ghost_runs, u.rules_applied))

def gen(tmpl, out=None):
    path = tmpl if os.path.isabs(tmpl) else os.path.join(VERIF, 'contracts', tmpl)
    w = weave.weave_template(path)
    if out:
        open(out, 'w').write(w['text'])
    else:
        sys.stdout.write(w['text'])

def norm(file, kind, name, *opts):
    """print the normalised text of a unit (to start a template from)"""
    spec = weave.UnitSpec(' '.join([file, kind, name] + list(opts)))
    raw, text, applied, ex = weave.extract_and_normalise(spec)
    sys.stdout.write(text + '\n')
    sys.stderr.write(str(applied) + '\n')

if __name__ == '__main__':
    cmd = sys.argv[1]
    globals()[cmd](*sys.argv[2:])
