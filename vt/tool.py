"""maintenance commands: freeze / gen / manifest"""
import json, os, sys
from . import weave
from .weave import VERIF

def freeze(tmpl):
    path = tmpl if os.path.isabs(tmpl) else os.path.join(VERIF, 'contracts', tmpl)
    w = weave.weave_template(path, freeze=True)
    fp = weave.frozen_path(path)
    os.makedirs(os.path.dirname(fp), exist_ok=True)
    json.dump(w['frozen'], open(fp, 'w'), indent=1)
    print('froze %d units -> %s' % (len(w['frozen']), fp))
    for u in w['units']:
        print('  %-40s ghost runs %3d  rules %s' % (u.label, u.ghost_runs, u.rules_applied))

def gen(tmpl, out=None):
    path = tmpl if os.path.isabs(tmpl) else os.path.join(VERIF, 'contracts', tmpl)
    w = weave.weave_template(path)
    if out:
        open(out, 'w').write(w['text'])
    else:
        sys.stdout.write(w['text'])

def norm(file, kind, name, *opts):
    """print the normalised text of a unit (to start a template from)"""
    spec = weave.UnitSpec(' '.join([file, kind, name] + list(opts)))
    raw, text, applied, ex = weave.extract_and_normalise(spec)
    sys.stdout.write(text + '\n')
    sys.stderr.write(str(applied) + '\n')



NOT_APPLICABLE = {
    'C02': 'postcondition of BPETokenizer::merge_bytes: regex match iterator + BinaryHeap of 6-tuples + filter_map/find closures over enumerate().zip(); Verus rejects the text and Kani cannot construct a Regex receiver; no contract within reach decides it (DESIGN 7)',
    'C03': 'canonical merge order is the loop invariant of BPETokenizer::merge_bytes (BinaryHeap of 6-tuples, regex match iterator, nested find/map closures): Verus rejects the text, Kani cannot construct a Regex receiver, and unlike C02 there is no composition around the function to put under contract (DESIGN 7)',
    'C05': 'all-schedules property of threaded code (Mutex, AtomicUsize spin, sync_channel); Kani has no threads, Verus only verifies concurrency written with its own permission types (DESIGN 7)',
    'C08': 'whole-pipeline / history / schedule property through pyo3 classes, threads and files; no per-call contract expresses it (DESIGN 7)',
    'C09': 'drop / panic / bounded-lookahead property of background threads; history property with no per-call contract (DESIGN 7)',
    'C14': 'logic lives in a move-closure owning a ChaCha8 generator inside an iterator chain; not extractable as a function under contract (DESIGN 7)',
    'C19': 'train_bpe = worker threads + file I/O + HashMap entry closures; greedy optimality is a whole-loop invariant over it (DESIGN 7)',
    'C20': 'Dictionary::create = threads + files + regex + BinaryHeap in one function; get_closest is float comparison over HashMap iteration order (DESIGN 7)',
}


def catalogue(pid):
    """run only the mutation catalogue of one property (scratch copies; nothing under evidence/ or replay/ is touched)"""
    from .driver import run_catalogue
    for r in run_catalogue(pid) or []:
        print('%-45s %-10s %s %s' % (r['mutant'], r['status'], ' '.join(r.get('by', [])[:2]), ' '.join(r.get('detail', []))[:160]))


def manifest():
    from .props import PROPS
    checks = []
    for pid in sorted(PROPS):
        c = PROPS[pid]
        checks.append(dict(
            property_id=pid,
            quick_cmd='./check %s --tier quick' % pid,
            thorough_cmd='./check %s --tier thorough' % pid,
            evidence_file='/verif/evidence/%s.json' % pid,
            replay_cmd_template='./check %s --replay {path}' % pid,
            engine='vt',
            level_claimed=dict(category='proof',
                               text='Unbounded deductive proof (all inputs, all iterations) of contracts woven onto the functions extracted from /repo on every run; callers are checked against callee contracts. Proved: ' + c.get('claim', ''),
                               design_ref=c.get('design_ref', 'DESIGN.md section 6 (%s)' % pid)),
            level_note='Assumed (trusted base, also scanned mechanically into the evidence): ' + '; '.join(c.get('assumptions', []))
                       + ((' | Domain restrictions: ' + '; '.join(c['domain'])) if c.get('domain') else '')
                       + ((' | Not covered: ' + '; '.join(c['not_covered'])) if c.get('not_covered') else '')
                       + ((' | BOUNDED stand-in (labelled bounded, never counted as proved): ' + c['bounded_probe']['what'] + ' -- bound: ' + c['bounded_probe']['bound']) if c.get('bounded_probe') else ''),
            technique=('contract-based deductive verification: Verus (requires/ensures/invariant/decreases woven onto mechanically extracted real functions)'
                       + (' + Kani function contract / loop-free float lemmas (CBMC)' if c.get('kani') else '')
                       + (' + bounded probe of the real crate for the clause no contract reaches (labelled bounded)' if c.get('bounded_probe') else '')),
        ))
    na = [dict(property_id=k, reason=v) for k, v in sorted(NOT_APPLICABLE.items()) if k not in PROPS]
    import subprocess
    hooks = subprocess.run(['git', '-C', '/repo', 'log', '--format=%h %s'], stdout=subprocess.PIPE).stdout.decode().split('\n')
    hook_commits = [h.split()[0] for h in hooks if h and 'verif hook' in h]
    m = dict(
        version=1,
        setup_cmd='python3 -c "import sys; sys.path.insert(0, \'/verif\'); import vt.driver" && verus --version',
        hooks=dict(guard='cargo feature `verif` (and cfg(kani), set by Kani itself)',
                   enable='cargo test --offline --features verif --lib verif_rac (probe / replay driver and the bounded stand-ins; Verus reads the sources and needs no hook); cargo kani sets cfg(kani)',
                   baseline_off_cmd='cd /repo && cargo test --workspace --no-fail-fast --offline',
                   source_commits=hook_commits, add_only=True),
        engines=[dict(name='vt', path='/verif/vt', serves_properties=sorted(PROPS),
                      kind_free_text='extractor + rule table + ghost-erasure weaver + Verus / Kani runner + classifier + bounded stand-ins through the real crate (python3); contracts in /verif/contracts, oracles in /verif/rac')],
        checks=checks,
        not_applicable=na,
        notes='See DESIGN.md. exit 0 = every obligation discharged and the bounded stand-in of the property found nothing outside known_findings.txt; exit 1 = a named obligation generated from /repo failed, or a bounded stand-in / the probe after an undecided run found a concrete failing input on the real crate (VIOLATION); exit 2 = undecided (tool limit / lost anchor / rlimit), never an alarm.',
    )
    json.dump(m, open(os.path.join(VERIF, 'MANIFEST.json'), 'w'), indent=1)
    import jsonschema
    jsonschema.validate(m, json.load(open('/root/.vp/MANIFEST.schema.json')))
    print('MANIFEST.json written: %d checks, %d not applicable' % (len(checks), len(na)))


def validate():
    import jsonschema, glob
    sch = json.load(open('/root/.vp/EVIDENCE.schema.json'))
    for f in sorted(glob.glob(os.path.join(VERIF, 'evidence', '*.json'))):
        jsonschema.validate(json.load(open(f)), sch)
        print('valid', f)
    jsonschema.validate(json.load(open(os.path.join(VERIF, 'MANIFEST.json'))), json.load(open('/root/.vp/MANIFEST.schema.json')))
    print('valid MANIFEST.json')


if __name__ == '__main__':
    cmd = sys.argv[1]
    globals()[cmd](*sys.argv[2:])
