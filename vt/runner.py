"""Run Verus on a generated file and classify its diagnostics."""
import json
import os
import re
import subprocess
import time

from . import proc

VERUS_MEM_GB = float(os.environ.get('VT_VERUS_MEM_GB', '20'))

VERIFICATION_FAILURES = [
    (re.compile(r'postcondition not satisfied'), 'postcondition'),
    (re.compile(r'unable to prove post-?condition of closure'), 'closure-postcondition'),
    (re.compile(r'unable to prove pre-?condition of closure|closure.*precondition'), 'closure-precondition'),
    (re.compile(r'precondition not satisfied'), 'callee-precondition'),
    (re.compile(r'assertion failed'), 'assertion'),
    (re.compile(r'invariant not satisfied at end of loop body'), 'invariant-preserved'),
    (re.compile(r'invariant not satisfied before loop'), 'invariant-entry'),
    (re.compile(r'invariant not satisfied'), 'invariant'),
    (re.compile(r'possible arithmetic underflow/overflow'), 'arithmetic-overflow'),
    (re.compile(r'possible division by zero'), 'division-by-zero'),
    (re.compile(r'possible bit shift underflow/overflow'), 'shift-overflow'),
    (re.compile(r'decreases not satisfied'), 'termination'),
    (re.compile(r'could not prove termination'), 'termination'),
    (re.compile(r'loop must have a decreases clause'), 'termination'),
    (re.compile(r'reached? (a )?panic|panic.*reachable|cannot prove.*unreachable'), 'panic-reachable'),
    (re.compile(r'index out of bounds|possible out of bounds'), 'index'),
    (re.compile(r'recommendation not met'), 'recommends'),
    (re.compile(r'unable to prove assertion safety'), 'assertion'),
    (re.compile(r'may fail|might fail'), 'obligation'),
    (re.compile(r'constructed value may fail to meet its declared type invariant'), 'type-invariant'),
]
RLIMIT = re.compile(r'[Rr]esource limit|rlimit|while loop: Resource|timed? ?out', re.I)


def classify_message(msg):
    if RLIMIT.search(msg):
        return 'rlimit'
    for rx, kind in VERIFICATION_FAILURES:
        if rx.search(msg):
            return kind
    return None


def run_verus(path, rlimit=None, multiple_errors=20, timeout=1500, extra=None):
    cmd = ['verus', path, '--output-json', '--time', '--error-format=json',
           '--multiple-errors', str(multiple_errors)]
    if rlimit:
        cmd += ['--rlimit', str(rlimit)]
    if extra:
        cmd += extra
    t0 = time.time()
    env = dict(os.environ)
    out, err, rc, timed_out = proc.run(cmd, timeout, cwd=os.path.dirname(path), env=env, mem_gb=VERUS_MEM_GB)
    wall = time.time() - t0
    js = None
    try:
        js = json.loads(out)
    except Exception:
        # output may have leading noise; try from first '{'
        k = out.find('{')
        if k >= 0:
            try:
                js = json.loads(out[k:])
            except Exception:
                js = None
    diags = []
    for ln in err.split('\n'):
        ln = ln.strip()
        if ln.startswith('{'):
            try:
                d = json.loads(ln)
            except Exception:
                continue
            if d.get('$message_type') == 'diagnostic':
                diags.append(d)
    return dict(cmd=' '.join(cmd), rc=rc, json=js, diags=diags, wall=wall, stderr=err, timed_out=timed_out,
                stdout_head=out[:2000] if js is None else '')


def function_breakdown(js):
    out = []
    if not js:
        return out
    try:
        for mod in js['times-ms']['smt']['smt-run-module-times']:
            for f in mod.get('function-breakdown', []):
                out.append(dict(function=f.get('function'), mode=f.get('mode:', f.get('mode')),
                                ms=f.get('time'), rlimit=f.get('rlimit'), success=f.get('success')))
    except Exception:
        pass
    return out


def errors_of(res):
    """error-level diagnostics, with primary and secondary spans"""
    out = []
    for d in res['diags']:
        if d.get('level') != 'error':
            continue
        msg = d.get('message', '')
        if msg.startswith('aborting due to'):
            continue
        spans = d.get('spans', [])
        out.append(dict(message=msg, code=(d.get('code') or {}).get('code') if d.get('code') else None,
                        spans=[dict(line=s['line_start'], line_end=s['line_end'], primary=s.get('is_primary'),
                                    label=s.get('label'), text=(s.get('text') or [{}])[0].get('text', '').strip())
                               for s in spans],
                        rendered=d.get('rendered', '')))
    return out
