#!/bin/bash
# usage: benall.sh <dir-with-<ID>/benign_k.diff> [out]  -- apply every behaviour-preserving refactoring in turn, run the property's
# quick check, undo it.  Expected: OK or UNDECIDED; a VIOLATION is a false alarm of the machinery.
base=${1:-/verif/benign}; out=${2:-/verif/gen/benall.txt}; : > $out
for d in $base/*/; do
  pid=$(basename $d); pid=${pid%%_*}
  for f in $d/benign_*.diff; do
    [ -f "$f" ] || continue
    git -C /repo apply $f || { echo "$pid $(basename $f): patch does not apply" >> $out; continue; }
    res=$(cd /verif && VT_OUT=/verif/gen/_scratch_out ./check $pid 2>&1 | grep -E "^(OK|VIOLATION|UNDECIDED)" | sed -E 's/ replay=[^ ]*\/([^\/ ]+)\.json/ \1/' | cut -c1-170 | tr '\n' ';')
    git -C /repo checkout -- .
    echo "$pid $(basename $f): $res" >> $out
  done
done
git -C /repo status --short >> $out
