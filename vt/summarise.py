"""summarise the raw outputs of vt/seedall.sh and vt/benall.sh into seeded/REGRESSION.txt and benign/RESULTS.txt
usage: python3 -m vt.summarise <seedall.txt> <benall.txt>"""
import re
import sys


def seeds(src, dst):
    rows = []
    for ln in open(src):
        ln = ln.strip()
        if ':' not in ln:
            continue
        sid, res = ln.split(':', 1)
        parts = [p.strip() for p in res.split(';') if p.strip()]
        ver = [p for p in parts if p.startswith('VIOLATION') and 'bounded-probe' not in p and 'undecided-unit' not in p]
        probe = [p for p in parts if 'bounded-probe' in p or 'undecided-unit' in p]
        und = [p for p in parts if p.startswith('UNDECIDED')]
        rows.append((sid, len(ver), len(probe), len(und)))
    out = ['# Regression over all archived seeded changes (vt/seedall.sh; each patch applied to /repo, quick check of its property, patch undone)',
           '# columns: seed | failed Verus/Kani obligations | failing bounded-probe classes (each with a concrete failing input) | Verus undecided groups | verdict']
    for sid, v, p, u in rows:
        verdict = 'REPORTED' if (v or p) else ('UNDECIDED' if u else 'MISSED')
        out.append('%-6s | %d | %d | %d | %s' % (sid, v, p, u, verdict))
    out.append('# %d seeds: %d reported (%d by a failed obligation, %d only by a bounded stand-in with a failing input), %d undecided, %d missed'
               % (len(rows), sum(1 for r in rows if r[1] or r[2]), sum(1 for r in rows if r[1]), sum(1 for r in rows if not r[1] and r[2]),
                  sum(1 for r in rows if not r[1] and not r[2] and r[3]), sum(1 for r in rows if not r[1] and not r[2] and not r[3])))
    open(dst, 'w').write('\n'.join(out) + '\n')
    print(out[-1])


def benign(src, dst):
    rows = []
    for ln in open(src):
        m = re.match(r'(C\d+\S*) (benign_\d+\.diff): (.*)$', ln.strip())
        if not m:
            continue
        pid, f, res = m.groups()
        v = 'VIOLATION' if 'VIOLATION' in res else ('UNDECIDED' if 'UNDECIDED' in res else ('OK' if res.startswith('OK') else '?'))
        why = ''
        if v == 'UNDECIDED':
            mm = re.search(r'reason=([^;]*)', res)
            why = (mm.group(1) if mm else '')[:120]
        if v == 'VIOLATION':
            why = res[:160]
        rows.append((pid, f, v, why))
    out = ['# Harmless (behaviour-preserving) refactorings written by sub-agents; vt/benall.sh applies each, runs the quick check of the property, undoes it.',
           '# Expected: OK or UNDECIDED (exit 2).  A VIOLATION would be a false alarm.']
    for r in rows:
        out.append('%s %-14s %-9s %s' % r)
    out.append('# %d refactorings: %d OK, %d undecided, %d VIOLATION (false alarms)'
               % (len(rows), sum(1 for r in rows if r[2] == 'OK'), sum(1 for r in rows if r[2] == 'UNDECIDED'), sum(1 for r in rows if r[2] == 'VIOLATION')))
    open(dst, 'w').write('\n'.join(out) + '\n')
    print(out[-1])


if __name__ == '__main__':
    seeds(sys.argv[1], '/verif/seeded/REGRESSION.txt')
    benign(sys.argv[2], '/verif/benign/RESULTS.txt')
