"""Small Rust-aware lexer and item extractor.

Tokens keep their leading trivia (whitespace + comments) so that a token list can be
rendered back to text byte-for-byte.  Only what the weaver needs is implemented: comments,
string / raw string / byte string / char literals vs lifetimes, numbers, identifiers and
punctuation (a few multi-character operators are kept together).
"""
import re
from dataclasses import dataclass

MULTI = ['..=', '...', '<<=', '>>=', '->', '=>', '::', '==', '!=', '<=', '>=', '&&', '||',
         '+=', '-=', '*=', '/=', '%=', '^=', '&=', '|=', '..', '<<', '>>']
# NB: '>>' and '<<' are split again by the weaver when comparing (generics), see norm_texts()

_ident = re.compile(r'[A-Za-z_][A-Za-z0-9_]*')
_number = re.compile(r'[0-9][0-9A-Za-z_]*(?:\.[0-9][0-9A-Za-z_]*)?')
_rawstr = re.compile(r'b?r(#*)"')
_charlit = re.compile(r"b?'(\\(?:x[0-9a-fA-F]{2}|u\{[0-9a-fA-F_]+\}|.)|[^'\\\n])'")
_lifetime = re.compile(r"'[A-Za-z_][A-Za-z0-9_]*")


@dataclass
class Tok:
    text: str      # token text
    pre: str       # trivia (whitespace/comments) before the token
    pos: int       # byte offset of token text in the lexed string
    line: int      # 1-based line of the token in the lexed string

    def render(self):
        return self.pre + self.text


def _skip_trivia(s, i):
    n = len(s)
    while i < n:
        c = s[i]
        if c in ' \t\r\n':
            i += 1
        elif s.startswith('//', i):
            j = s.find('\n', i)
            i = n if j < 0 else j
        elif s.startswith('/*', i):
            depth = 1
            i += 2
            while depth and i < n:
                if s.startswith('/*', i):
                    depth += 1
                    i += 2
                elif s.startswith('*/', i):
                    depth -= 1
                    i += 2
                else:
                    i += 1
        else:
            break
    return i


def lex(s):
    """Return (tokens, trailing_trivia)."""
    toks = []
    i = 0
    n = len(s)
    line = 1
    last = 0
    while True:
        j = _skip_trivia(s, i)
        pre = s[i:j]
        if j >= n:
            return toks, pre
        i = j
        c = s[i]
        m = _rawstr.match(s, i)
        if m:
            end = '"' + m.group(1)
            k = s.find(end, m.end())
            if k < 0:
                raise ValueError('unterminated raw string at %d' % i)
            e = k + len(end)
        elif c == '"' or (c == 'b' and s.startswith('b"', i)):
            k = i + (2 if c == 'b' else 1)
            while s[k] != '"':
                k += 2 if s[k] == '\\' else 1
            e = k + 1
        elif c == "'" or (c == 'b' and s.startswith("b'", i)):
            m = _charlit.match(s, i)
            if m:
                e = m.end()
            else:
                m = _lifetime.match(s, i)
                if not m:
                    raise ValueError('bad quote at %d: %r' % (i, s[i:i + 20]))
                e = m.end()
        elif c.isalpha() or c == '_':
            e = _ident.match(s, i).end()
        elif c.isdigit():
            m = _number.match(s, i)
            e = m.end()
            # `0..n` : do not swallow the range dots
            txt = s[i:e]
            if '.' in txt and s.startswith('..', i + txt.index('.')):
                e = i + txt.index('.')
            # method call on integer literal `1.max(x)`
            elif '.' in txt and not txt.split('.')[1][0].isdigit():
                e = i + txt.index('.')
        else:
            e = None
            for op in MULTI:
                if s.startswith(op, i):
                    e = i + len(op)
                    break
            if e is None:
                e = i + 1
        line += s.count('\n', last, i)
        last = i
        toks.append(Tok(s[i:e], pre, i, line))
        i = e


def render(toks, tail=''):
    return ''.join(t.render() for t in toks) + tail


OPEN = {'(': ')', '[': ']', '{': '}'}
CLOSE = {')': '(', ']': '[', '}': '{'}


def match_close(toks, i):
    """index of the token closing the bracket opened at toks[i]"""
    assert toks[i].text in OPEN, toks[i].text
    depth = 0
    for k in range(i, len(toks)):
        t = toks[k].text
        if t in OPEN:
            depth += 1
        elif t in CLOSE:
            depth -= 1
            if depth == 0:
                return k
    raise ValueError('unbalanced bracket starting at token %d (%s, line %d)' % (i, toks[i].text, toks[i].line))


def canon_header(h):
    """canonical impl header: single spaces between words, none around punctuation"""
    h = re.sub(r'\s+', ' ', h.strip())
    h = re.sub(r"\s*([<>:,+&'()\[\]=;])\s*", r'\1', h)
    return h


class ExtractError(Exception):
    pass


def _line_start(s, pos):
    k = s.rfind('\n', 0, pos)
    return k + 1


def _attr_start(src, toks, k):
    """walk backwards over `#[...]` attributes and doc comments preceding token k; return byte offset"""
    start = _line_start(src, toks[k].pos)
    j = k
    while j >= 2 and toks[j - 1].text == ']':
        # find matching '['
        depth = 0
        m = j - 1
        while m >= 0:
            if toks[m].text == ']':
                depth += 1
            elif toks[m].text == '[':
                depth -= 1
                if depth == 0:
                    break
            m -= 1
        if m >= 1 and toks[m - 1].text == '#':
            j = m - 1
            start = _line_start(src, toks[j].pos)
        else:
            break
    return start, j


def find_items(src, toks=None):
    """yield (kind, name, header_tok_index, body_open_index or None, end_tok_index) for fn/struct/enum/impl/type/const/trait
    items at any nesting depth."""
    if toks is None:
        toks, _ = lex(src)
    out = []
    n = len(toks)
    i = 0
    while i < n:
        t = toks[i].text
        if t in ('fn', 'struct', 'enum', 'impl', 'type', 'const', 'trait', 'static') and (i + 1 < n):
            # header start: walk back over visibility / qualifiers
            h = i
            while h > 0:
                p = toks[h - 1].text
                if p in ('pub', 'const', 'unsafe', 'async', 'extern', 'default'):
                    h -= 1
                elif p == ')' and h >= 4 and toks[h - 4].text == 'pub' and toks[h - 3].text == '(':
                    h -= 4
                else:
                    break
            if t == 'impl':
                name = None
            else:
                name = toks[i + 1].text
                if t == 'const' and name in ('fn', 'unsafe'):
                    i += 1
                    continue
            # find body `{` or terminating `;` at bracket depth 0 (angle brackets ignored, fine for our sources)
            k = i + 1
            depth = 0
            body = None
            end = None
            while k < n:
                x = toks[k].text
                if x in ('(', '['):
                    depth += 1
                elif x in (')', ']'):
                    depth -= 1
                elif x == '{' and depth == 0:
                    body = k
                    end = match_close(toks, k)
                    break
                elif x == ';' and depth == 0:
                    end = k
                    break
                k += 1
            if end is None:
                break
            if t == 'struct' and body is None and toks[end].text == ';':
                pass
            if t == 'impl':
                name = canon_header(' '.join(x.text for x in toks[i:body])) if body else None
            out.append((t, name, h, body, end))
            if t in ('impl', 'trait') and body is not None:
                i = body + 1      # descend into the impl body
                continue
            if t == 'fn' and body is not None:
                i = end + 1       # do not descend into fn bodies (nested fns are not units)
                continue
            i = end + 1
            continue
        if t == 'mod' and i + 2 < n and toks[i + 2].text == '{':
            # skip `mod tests { .. }` entirely when cfg(test); otherwise descend
            name = toks[i + 1].text
            if name in ('tests', 'test'):
                i = match_close(toks, i + 2) + 1
                continue
        i += 1
    return toks, out


def extract(src, kind, name, impl=None, nth=0):
    """Return dict(text, start_line, end_line) of the item, verbatim, including preceding attributes.
    impl: regex that must match the (whitespace-normalised) header of the enclosing impl block."""
    toks, items = find_items(src)
    impl_ranges = []
    if impl is not None:
        rx = re.compile(impl)
        for (k, nm, h, body, end) in items:
            if k == 'impl' and nm is not None and rx.search(nm):
                impl_ranges.append((body, end, nm))
            elif k == 'trait' and nm is not None and body is not None and rx.search('trait ' + nm):
                impl_ranges.append((body, end, 'trait ' + nm))
        if not impl_ranges:
            raise ExtractError('impl block matching %r not found' % impl)
    cands = []
    for (k, nm, h, body, end) in items:
        if k != kind or nm != name:
            continue
        if impl is not None:
            hit = [nm2 for (b, e, nm2) in impl_ranges if b < h and end <= e]
            if not hit:
                continue
            cands.append((h, body, end, hit[0]))
            continue
        cands.append((h, body, end, None))
    if len(cands) <= nth:
        raise ExtractError('%s %s (impl=%r, nth=%d) not found' % (kind, name, impl, nth))
    h, body, end, impl_header = cands[nth]
    start_byte, hj = _attr_start(src, toks, h)
    end_byte = toks[end].pos + len(toks[end].text)
    text = src[start_byte:end_byte]
    return dict(text=text, impl_header=impl_header, start_line=src.count('\n', 0, start_byte) + 1,
                end_line=src.count('\n', 0, end_byte) + 1)
