"""Kani runner for the loop-free float lemmas / function contracts (small generated crates, never the whole repo)."""
import os
import re
import shutil
import subprocess
import time

from . import weave, lexer, proc
from .weave import VERIF, WeaveError

KANI_SRC = os.path.join(VERIF, 'kani')


def prepare_crate(pid, spec, gen_root):
    """copy the crate skeleton /verif/kani/<crate> to gen/<pid>/kani_<crate> and write src/extracted.rs with the units
    extracted verbatim from /repo (plus contract attributes given in the spec, inserted in front of the item)."""
    name = spec['crate']
    src = os.path.join(KANI_SRC, name)
    dst = os.path.join(gen_root, 'kani_' + name + ('_' + spec['tag'] if spec.get('tag') else ''))
    if os.path.exists(dst):
        # keep the target directory (build cache) but refresh sources
        for sub in ('src', 'Cargo.toml', '.cargo', 'Cargo.lock'):
            p = os.path.join(dst, sub)
            if os.path.isdir(p):
                shutil.rmtree(p)
            elif os.path.exists(p):
                os.remove(p)
    os.makedirs(dst, exist_ok=True)
    for sub in os.listdir(src):
        if sub == 'target':
            continue
        s, d = os.path.join(src, sub), os.path.join(dst, sub)
        if os.path.isdir(s):
            shutil.copytree(s, d)
        else:
            shutil.copy(s, d)
    units = []
    if spec.get('extract'):
        parts = ['// GENERATED on every run: items extracted verbatim from /repo (see vt/kani.py)\n']
        for e in spec['extract']:
            us = weave.UnitSpec(e['unit'])
            raw, text, applied, ex = weave.extract_and_normalise(us)
            attrs = e.get('attrs', '')
            parts.append('// ---- %s (%s:%d-%d)\n%s%s\n' % (us.label, us.file, ex['start_line'], ex['end_line'], attrs, text))
            units.append(dict(unit=us.label, kind=us.kind, file=us.file, lines=[ex['start_line'], ex['end_line']],
                              sha256=weave.sha(raw), rules_applied=applied, contract_attributes=attrs.strip().split('\n') if attrs else [],
                              raw=raw))
        open(os.path.join(dst, 'src', 'extracted.rs'), 'w').write('\n'.join(parts))
    return dst, units


def run_harness(crate_dir, harness, timeout=1500, extra=None):
    cmd = ['cargo', 'kani', '--harness', harness] + (extra or [])
    env = dict(os.environ)
    env['CARGO_NET_OFFLINE'] = 'true'
    t0 = time.time()
    out, _, rc, timed_out = proc.run(cmd, timeout, cwd=crate_dir, env=env, merge_stderr=True)
    wall = time.time() - t0
    m = re.search(r'\*\* (\d+) of (\d+) failed', out)
    failed, total = (int(m.group(1)), int(m.group(2))) if m else (None, None)
    success = 'VERIFICATION:- SUCCESSFUL' in out
    verdict_failed = 'VERIFICATION:- FAILED' in out
    failed_checks = []
    for mm in re.finditer(r'Check \d+: (\S+)\n\s+- Status: FAILURE\n\s+- Description: "(.*?)"\n\s+- Location: (\S+)', out):
        failed_checks.append(dict(check=mm.group(1), description=mm.group(2), location=mm.group(3)))
    vt = re.search(r'Verification Time: ([0-9.]+)s', out)
    return dict(cmd=' '.join(cmd), rc=rc, out=out, wall=wall, timed_out=timed_out, failed=failed, total=total,
                success=success, verdict_failed=verdict_failed, failed_checks=failed_checks,
                solver_s=float(vt.group(1)) if vt else None, harness=harness)


def concrete_values(crate_dir, harness, extra=None, timeout=1800):
    """re-run a failing harness with concrete playback and return the counterexample as a list of integers
    (one per kani::any() call, little endian)"""
    r = run_harness(crate_dir, harness, timeout=timeout,
                    extra=(extra or []) + ['-Z', 'concrete-playback', '--concrete-playback=print'])
    m = re.search(r'let concrete_vals: Vec<Vec<u8>> = vec!\[(.*?)\];', r['out'], re.S)
    if not m:
        return None
    vals = []
    for mm in re.finditer(r'vec!\[([0-9, ]*)\]', m.group(1)):
        bs = [int(x) for x in mm.group(1).split(',') if x.strip()]
        vals.append(int.from_bytes(bytes(bs), 'little'))
    return vals
