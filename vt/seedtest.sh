#!/bin/bash
# usage: seedtest.sh <patch-file> <PID>...   -- apply a seeded change to /repo, run the given checks, undo it
patch=$1; shift
git -C /repo apply "$patch" || { echo "patch does not apply"; exit 9; }
git -C /repo diff --stat | tail -1
cd /verif
for p in "$@"; do VT_OUT=/verif/gen/_scratch_out ./check $p | cut -c1-260; echo "rc($p)=${PIPESTATUS[0]}"; done
git -C /repo checkout -- .
