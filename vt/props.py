"""Per-property configuration: which contract templates decide which property."""

PROPS = {}

PROPS['C11'] = dict(
    title='clean() normal form; word boundaries',
    groups=[dict(template='c11_word_boundaries.rs'), dict(template='c11_clean.rs')],
    claim='',
    not_covered=[],
    assumptions=[],
    domain=[],
)

PROPS['C04'] = dict(
    title='Tokenizer vocabulary maps are mutually consistent bijections',
    groups=[dict(template='c04_bpe.rs')],
    input_search=True,
    claim='',
    not_covered=[],
    assumptions=[],
    domain=[],
)

PROPS['C16'] = dict(
    title='Inference windows tile the text exactly and respect the size limits',
    groups=[dict(template='c16_windows.rs')],
    claim='',
    not_covered=[],
    assumptions=[],
    domain=[],
)

PROPS['C10'] = dict(
    title='Whitespace operations and repair are inverse; repair only touches whitespace',
    groups=[dict(template='c10_whitespace.rs')],
    claim='',
    not_covered=[],
    assumptions=[],
    domain=[],
)

PROPS['C18'] = dict(
    title='Word matching is a longest common subsequence; edited words are its complement',
    groups=[dict(template='c18_match_words.rs')],
    claim='',
    not_covered=[],
    assumptions=[],
    domain=[],
)

PROPS['C12'] = dict(
    title='Edit distance equals the reference metric and operations() is a minimal script',
    groups=[dict(template='c12_edit.rs', rlimit=400)],
    kani=[dict(crate='float_lemmas', harnesses=['norm_quotient', 'unit_quotient'],
               domain='0 <= n <= m, 1 <= m < 2^32 (complete over this domain: loop-free, fully symbolic)')],
    input_search=True,
    claim='',
    not_covered=[],
    assumptions=[],
    domain=[],
)

PROPS['C07'] = dict(
    title='The multi-source generator yields every item exactly once and terminates',
    groups=[dict(template='c07_generator.rs')],
    input_search=True,
    claim='',
    not_covered=[],
    assumptions=[],
    domain=[],
)

PROPS['C06'] = dict(
    title='Batching partitions the item stream and respects the batch limit',
    groups=[dict(template='c06_batch.rs'), dict(template='c06_subseq.rs')],
    claim='',
    not_covered=[],
    assumptions=[],
    domain=[],
)

PROPS['C15'] = dict(
    title='Spelling corruption makes one bounded edit and never touches protected positions',
    groups=[dict(template='c15_providers.rs')],
    input_search=True,
    claim='',
    not_covered=[],
    assumptions=[],
    domain=[],
)
