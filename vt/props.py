"""Per-property configuration: which contract templates decide which property."""

PROPS = {}

PROPS['C11'] = dict(
    title='clean() normal form; word boundaries',
    groups=[dict(template='c11_word_boundaries.rs'), dict(template='c11_clean.rs'), dict(template='c11_unicode.rs')],
    claim='text::clean(s) == flat(normal_form(chars(s))) where normal_form = whitespace-split words joined by single spaces; lemmas: normal form is clean (no leading/trailing/adjacent whitespace, only \' \' separators), preserves the non-whitespace characters, is idempotent; text::word_boundaries returns exactly the maximal non-whitespace runs in order, covering every non-whitespace character; whitespace::remove / full == non-whitespace characters joined by "" / " ".',
    not_covered=['idempotence is proved on character sequences; that re-segmenting the output string yields the same characters is an assumption about grapheme segmentation'],
    assumptions=['domain of the property: no character mixes whitespace and non-whitespace code points (then str::trim is the identity on non-whitespace characters)', 'itertools filter/join semantics (vt_filter_join)'],
    domain=[],
    input_search=True,
    bounded_probe=dict(label='clean/word_boundaries/remove/full(string-level)', file='src/text.rs', line=14,
                       what='the statement at STRING level against std split_whitespace and an independent character segmentation: clean == words joined by single spaces, no leading/trailing/consecutive/non-space whitespace, non-whitespace characters preserved, idempotent; word_boundaries == character ranges of the words; remove / full',
                       bound='texts of at most 4 pieces from {a, b, space, tab, U+00A0, U+3000, U+200B, U+000B, CRLF, U+00E4, e+U+0301} and from {two regional indicators, Hangul L and V jamo, space, newline, a}; grapheme mode: unmixed clusters'),
)

PROPS['C02'] = dict(
    title='BPE tokenization is lossless for every well-formed merge table',
    groups=[dict(template='c04_bpe.rs')],
    input_search=True,
    claim="BY CONTRACT: BPETokenizer::tokenize = prefix ids + per part (merge_bytes of a regular part | the single id of a special token) + suffix ids, never an error without special-token parsing, every emitted id a vocabulary id; BPETokenizer::de_tokenize spells exactly the table entries of the ids (special spellings only when kept; unknown special id = error, never a panic); BPETokenizer::new establishes the table invariant (position = 256 + merge id, special ids after the table); lemmas: dec distributes over concatenation, special ids spell nothing when ignored, hence (theorem_lossless) decoding tokenize(s) with special tokens ignored on both sides gives the text without its trailing whitespace -- exactly s when s has none -- and the decoded text is a prefix of s that differs only by trailing whitespace (lemma_trim_end_prefix). ASSUMED and covered by the BOUNDED stand-in only: the contract of BPETokenizer::merge_bytes (every id a regular id; the ids spell the text without its trailing whitespace), because that function is out of the verifier's reach.",
    not_covered=['BPETokenizer::merge_bytes itself: BinaryHeap of 6-tuples, regex match iterator, nested enumerate/zip/filter_map/find/map closures (DESIGN 7); its contract is assumed in the proof and checked by the bounded stand-in',
                 'that prefix/suffix ids are special ids (fix_wf): established by new_base_tokenizer, assumed (bounded stand-in of C04)',
                 'split_input / add_prefix_and_suffix are assumed in this template; they are verified units of C01 (same functions)',
                 'property C03 (canonical merge ORDER) is not claimed: it is an invariant of the heap loop inside merge_bytes, and the pinned tree violates it (DESIGN 8)'],
    assumptions=['regex word pattern: the matches cover the text except trailing whitespace (part of the assumed merge_bytes contract)', 'String::from_utf8 / UTF-8 encoding is injective', 'HashMap / Borrow<str> lookups (vstd)'],
    domain=['table + special tokens fit u32', 'wf(): no special spelling is also a regular token (configuration precondition)'],
    bounded_probe=dict(label='merge_bytes(via tokenize/de_tokenize)', file='src/tokenization.rs', line=1368,
                       what='the assumed contract of merge_bytes through the public API: every emitted id is a vocabulary id, and decoding the ids (special tokens ignored on both sides) returns the text without its trailing whitespace, as well-formed UTF-8',
                       bound='7 merge tables (multi-level, overlapping, whitespace-prefixed, multi-byte merges) x {no limit, truncating max_vocab_size} x {no prefix/suffix, <bos>/<eos>} x texts of at most 5 pieces from {a, b, c, space, U+00E4, newline} and of at most 3 pieces from {<unk>, <pad>, <bos>, space, ab} and of at most 3 pieces from {U+0000, U+007F, U+0080, U+07FF, U+FFFF, U+10FFFF, a, space} (all without prefix/suffix, every 4th with)'),
)

PROPS['C04'] = dict(
    title='Tokenizer vocabulary maps are mutually consistent bijections',
    groups=[dict(template='c04_bpe.rs'), dict(template='c04_byte.rs'), dict(template='c04_vocab.rs')],
    input_search=True,
    claim='BPETokenizer::de_tokenize: the decoded string spells exactly the table entries of the ids (special spellings only when kept), an unknown special id is an error and never a panic, total on valid input; hence decoding a single regular id yields exactly the bytes of that token (lemma_dec_single). For the BPE, byte and vocabulary (character) tokenizers, under the representation invariant established by their constructors: id_to_token(id) == vocab_at(id) for EVERY u32 (None exactly at and above vocab_size), vocab_size == number of ids with a token (ids contiguous), token_to_id is sound and complete w.r.t. vocab_at (every id whose token is the given UTF-8 string is returned), unk id lies in the special range.',
    not_covered=['get_vocab (BTreeMap built from iterator chains): vocab_at stands for it', 'the constructors (Vocab::build, BPETokenizer::new, new_base_tokenizer) that establish the invariant: itertools/regex/file loading', 'pad/prefix/suffix ids inside the special range follow from the assumed invariant, not from verified constructor code'],
    assumptions=['std HashMap model (obeys_key_model for String, Vec<u8>, Token) and Borrow-lookups (String/str, Vec<u8>/[u8])', 'ToBytes/FromBytes impls are mutually inverse (tok_bytes injective)', 'UTF-8 encoding injective; a String is determined by its characters'],
    domain=[],
    bounded_probe=dict(label='tokenizers(public-API)', file='src/tokenization.rs', line=626,
                       what='the statement for byte, character and BPE tokenizers built through their public constructors (Vocab::build, new_base_tokenizer, BPETokenizer::new with small merge tables): get_vocab has vocab_size entries, id_to_token / token_to_id agree with it for every id up to vocab_size + 8',
                       bound='the small input space enumerated by the probe (see rac/mod.rs, mod c04::search); cases are not counted for this older probe'),
)

PROPS['C16'] = dict(
    title='Inference windows tile the text exactly and respect the size limits',
    groups=[dict(template='c16_windows.rs')],
    claim='CharString::{byte_start_end,char_byte_len,char_range_to_byte_range,get,sub,len,is_empty} against the prefix-sum oracle pre() of the run-length encoded cluster lengths (panic unreachable, no overflow); windows::char: Err iff max <= 2*ctx, otherwise the windows tile [0, len): first starts at 0, each starts where the previous ended, last ends at len, none empty, ctx_start <= window_start < window_end <= ctx_end, ctx_end - ctx_start <= max, byte fields == pre(char fields), str is exactly the context slice, terminates; windows::byte: same tiling with pre(ctx_end) - pre(ctx_start) <= max_bytes, error instead of a no-progress loop; windows::windows: dispatches to these contracts, Full mode = one window covering the whole text with byte bounds 0..|s|.',
    not_covered=['windows::count_until (one itertools::fold_while expression): assumed contract, a change inside it is not detected', 'text::possible_*_substrings (same index arithmetic, not under contract)'],
    assumptions=['CharString::new establishes wf (cluster lengths >= 1, sum == byte length, boundaries are char boundaries)', 'str slicing at cluster boundaries (vt_str_slice)', 'usize::from(bool)'],
    domain=['2 * context <= usize::MAX, |s| + max <= usize::MAX'],
    input_search=True,
    bounded_probe=dict(label='windows(public-API)', file='src/windows.rs', line=161,
                       what='the whole statement through windows::windows for all three window kinds with an independent character/byte offset table (includes count_until and the dispatcher): tiling in characters and bytes, contexts contain their windows and respect the maximum, reported string == context slice, byte boundaries denote the character boundaries, errors only for impossible configurations / characters that cannot fit, no panic, termination (5 s deadline)',
                       bound='non-empty texts of at most 5 pieces from {a, U+00E4, U+20AC, U+1F600, e+U+0301, CRLF} (all with at most 3 code points, every 29th longer one) x 3 kinds x max in 1..=9 x context in 0..=3 x graphemes'),
)

PROPS['C10'] = dict(
    title='Whitespace operations and repair are inverse; repair only touches whitespace',
    groups=[dict(template='c10_whitespace.rs'), dict(template='c10_total.rs')],
    claim='whitespace::operations: for clean `from`/`to` with equal non-whitespace content returns Ok(ops) with one op per character of `from` and rep(from, ops) == to (Err arm unreachable, no index fault, terminates); whitespace::repair: Err iff lengths differ, otherwise output == flat(rep(chars, ops)); lemmas over rep alone: strip(rep(s, ops)) == strip(s) for EVERY ops, all-Keep is the identity; round trip = composition of the two contracts.',
    not_covered=['for inputs that violate the precondition (not clean / different content) only totality is verified (Ok or Err, no panic, one operation per character when Ok)'],
    assumptions=["CharString::new/chars split a string into characters whose texts concatenate to it; Character::is_whitespace is a function of the character text; ' ' is whitespace"],
    domain=[],
    input_search=True,
    bounded_probe=dict(label='operations/repair(string-level)', file='src/whitespace.rs', line=70,
                       what='the statement at STRING level with an independent character segmentation (unicode_segmentation / code points), i.e. including what the CharString model assumes: round trip for clean pairs, repair changes only whitespace for every operation sequence, all-Keep identity, length mismatch is an error',
                       bound='texts of at most 5 pieces from {a, b, space, U+00E4, e+U+0301, U+3000} and of at most 4 from {a, CRLF, space, b} (grapheme mode: unmixed clusters, as the quantifier says); all clean pairs with equal content; every operation sequence for texts of at most 4 characters plus two wrong lengths'),
)

PROPS['C14'] = dict(
    title='Whitespace corruption changes only whitespace and stays label-consistent',
    groups=[dict(template='c14_corrupt.rs')],
    kani=[dict(crate='float_lemmas', harnesses=['zero_prob_never_fires', 'clamp_keeps_unit_interval'],
               domain='all f64 pairs with 0 <= r < 1 and p == 0.0 (complete over this domain: loop-free, fully symbolic)')],
    claim='preprocessing::corrupt_whitespace (the boxed closure, lifted by rule R22 into a function of (iw_p, dw_p, use_graphemes, text, info)): returns Ok, never panics (the constructor assertion is the stated domain), and the output string is flat(co(cs, d)) for SOME decision bits d, one per character: a whitespace character is kept or dropped, a non-whitespace character is kept or gets ONE space in front and only if it is not the first character and its predecessor is not whitespace; a probability of value zero never fires (delete probability 0: no whitespace disappears; insert probability 0: none appears; float bridge = Kani lemma zero_prob_never_fires). Pure lemmas from that contract: for a clean text the corrupted character sequence is again clean and has the same non-whitespace characters (both modes, character level); in code-point mode the corrupted STRING satisfies the precondition ops_pre of whitespace::operations(corrupted, text), so contract C10 gives one label per input character and exact recovery by repair. The target is untouched by construction (the function receives the text by shared reference and returns a new String). Determinism: the output is the corruption by exactly the bits seeded_bits(chars, info.seed, iw_p, dw_p) -- draw i of the ChaCha8 stream seeded with info.seed decides character i -- so it depends on (text, seed) and the configured parameters only.',
    not_covered=['grapheme mode at string level: that the grapheme segmentation of the corrupted STRING is the corrupted character sequence (an inserted space could in principle join a following cluster that starts with an extending code point) is not proved; the character-level statement holds in both modes',
                 'determinism in (text, seed) is proved in one fixed form only: the output is corrupted_by(.., seeded_bits(.., info.seed, ..)), i.e. draw i of the stream seeded with info.seed decides character i.  That is stronger than the statement (another seeded scheme would be deterministic too), so on CHANGED code a failure of these clauses is reported only together with a failing input (stronger_than_statement) and is undecided otherwise',
                 'apply(Part::Input, ..) / whitespace_correction_input (task.rs): closures over the tokenizer; the label-count consequence is the composition with C10 and C01, not a contract on those closures'],
    assumptions=['CharString::new/chars/get_char split a string into characters; in code-point mode the characters are the code points (axiom_code_point_chars)',
                 'rand: ChaCha8Rng::seed_from_u64 / random::<f64>() is a deterministic stream of values in [0,1)',
                 'f64::clamp / f64 comparison are uninterpreted in Verus; only the Kani lemma relates them', 'itertools join("") concatenates', 'String + &str appends'],
    domain=['at least one probability positive after clamping (the constructor assertion)'],
    input_search=True,
    stronger_than_statement=[r'seeded_bits?\(', r'rng_state\(rng\)'],
    bounded_probe=dict(label='corrupt_whitespace(string-level)', file='src/data/preprocessing.rs', line=329,
                       what='the whole statement at STRING level in both modes through the public preprocessing() API (same non-whitespace characters, clean, operations/repair recover the text with one label per character, target untouched, deterministic, zero probabilities never fire); this is the only check of the grapheme-mode string-level clause',
                       bound='every whitespace-clean text of at most 4 code points over {a, b, space, CR, LF, U+0001, U+0301, U+200D, U+0600, U+1F1E9, U+1100, U+1161, U+1F600} x use_graphemes in {true,false} x (iw,dw) in {(1,0),(0,1),(0.5,0.5)} x seeds 0..2 (each also with file_idx 1 and 3 and a non-empty marks map, which must not matter); plus train_task(WhitespaceCorrection) on 5 texts with literal special-token spellings: one label per token'),
)

PROPS['C18'] = dict(
    title='Word matching is a longest common subsequence; edited words are its complement',
    groups=[dict(template='c18_match_words.rs')],
    claim='text::match_words_with: the returned pairs are strictly increasing in both coordinates, every pair matches under the given (total, deterministic) predicate, their number equals lcs of the two word sequences (table proved equal to the LCS recurrence, backtrace panic unreachable), counts are the word counts; match_words instantiates it with (case-insensitive) word equality; edited_words == complement of the matched indices of that matching.',
    not_covered=['str_match_fn (two closures of different types in an if/else): assumed to be word equality', 'the splitters themselves: words_by(0,.) = str::split_ascii_whitespace and words_by(1,.) = str::split_whitespace are uninterpreted; the contract requires that ONE of them is used for both texts'],
    assumptions=['std max_by returns the last maximum', 'HashSet idioms of edited_words (vt_set_*)'],
    domain=[],
    input_search=True,
    bounded_probe=dict(label='match_words/edited_words(public-API)', file='src/text.rs', line=155,
                       what='the whole statement through match_words / edited_words against a reference LCS (includes str_match_fn and the splitter): strictly increasing pairs of equal words, LCS length, word counts, edited words == complement',
                       bound='pairs of sentences of at most 4 words from {a, A, b, ab, U+0130, i+U+0307, a Greek word ending in capital sigma and its lower-case form} (all pairs of sentences of at most 2 words, every 1499th longer pair; also with a non-ASCII whitespace as first separator) x ignore_case; the oracle accepts ASCII or Unicode word splitting, the same for both texts'),
)

PROPS['C12'] = dict(
    title='Edit distance equals the reference metric and operations() is a minimal script',
    groups=[dict(template='c12_edit.rs', rlimit=400)],
    kani=[dict(crate='float_lemmas', harnesses=['norm_quotient', 'unit_quotient'],
               domain='0 <= n <= m, 1 <= m < 2^32 (complete over this domain: loop-free, fully symbolic)')],
    input_search=True,
    claim='edit::_calculate_edit_matrices: every cell of d equals the reference recurrence dist (insert, delete, keep/replace, adjacent transposition; whitespace never substituted or transposed under spaces_insert_delete_only) and every cell of ops is an optimal admissible predecessor, for all four flag combinations; operations(): script length == dist, positions sorted, applying the script to a yields b (apply_script: copy / insert b[j] / delete a[i] / replace by b[j] / swap a[i],a[i+1]), panic arm unreachable, terminates; distance(): numerator == dist, denominator 1 or the longer length (>= 1: the quotient is always defined), 0 for equal strings, numerator <= denominator when normalised without spaces_insert_delete_only; prefix_distance(): numerator == min over prefixes of b. Float values: Kani lemma norm_quotient ((n as f64)/(m as f64) finite, in [0,1], 0 iff n == 0 for n <= m < 2^32).',
    not_covered=['edit::distances (zip/map closure)', 'normalised prefix_distance with an empty `a` (0/0) is outside the statement'],
    assumptions=['CharString::new/chars/len', 'std min_by returns the first minimum', 'f64 casts and division are IEEE (the ghost integer view of floats: vt_f64 / vt_fdiv)'],
    domain=['(|a|+1) * (|b|+1) <= usize::MAX'],
    bounded_probe=dict(label='distance/operations(public-API)', file='src/edit.rs', line=180,
                       what='distance == reference DP written from the statement, operations is a script of that length that turns a into b, for all flag combinations',
                       bound='the small input space enumerated by the probe (see rac/mod.rs, mod c12::search); cases are not counted for this older probe'),
)

PROPS['C07'] = dict(
    title='The multi-source generator yields every item exactly once and terminates',
    groups=[dict(template='c07_generator.rs')],
    input_search=True,
    claim="MultiTrainDataGenerator::next returns Some((x, k)) only as the head of source k's remaining items, pops exactly that item, leaves every other source untouched, returns None only when all sources are exhausted without consuming anything, preserves the representation invariant and terminates (measure: number of unfinished sources); next_idx: sequential stays until finished then next source, interleaved = first unfinished source cyclically after the current one, weighted = some unfinished source; both terminate.",
    not_covered=['weighted strategy is reproducible from the seed (determinism of ChaCha8Rng is assumed, not verified)', 'ExactSizeIterator::len of a source == the number of items it still yields (assumed contract of the boxed iterator)'],
    assumptions=['iterator contract of the boxed sources (next pops the head; None iff empty, fused)', 'rand: sample returns an index of the weight vector; WeightedIndex::new succeeds on non-empty positive weights'],
    domain=['at least one source'],
    bounded_probe=dict(label='generator(public-API)', file='src/data/loading.rs', line=273,
                       what='every item exactly once, per-source order, strategy order, termination (5 s deadline) through MultiTrainDataGenerator::new',
                       bound='the small input space enumerated by the probe (see rac/mod.rs, mod c07::search); cases are not counted for this older probe'),
)

PROPS['C06'] = dict(
    title='Batching partitions the item stream and respects the batch limit',
    groups=[dict(template='c06_batch.rs'), dict(template='c06_subseq.rs')],
    claim='BatchLimit::{from_items,update,limit} track exactly (count, max size) and limit() == count or count*max; Batched::batch_from returns the values its source produced in call order (ghost log), never an empty batch, every batch with more than one item within the limit, greedy-maximal remainder, terminates; find_subsequences_of_max_size_k returns only non-empty in-bounds ranges that fit, starts strictly increasing, ends non-decreasing, terminates.',
    not_covered=['Batched::build_batch sort / shuffle / prefetch glue (sort_by_key, shuffle(rng), splice, closure capturing &mut buf): partition and seed-determinism for sorted/shuffled mode', 'completeness / right-maximality of find_subsequences_of_max_size_k'],
    assumptions=['ItemSize::size is a pure function of the item', 'Vec of a non-zero-sized type has at most isize::MAX elements'],
    domain=['batch_from: item sizes in [1, smax] with (limit + 2) * smax <= usize::MAX (machine arithmetic of count * max size); zero-size items are outside the verified domain'],
    input_search=True,
    bounded_probe=dict(label='batched(public-API)', file='src/data/loading.rs', line=516,
                       what='the whole statement through BatchedIterator::batched, INCLUDING Batched::build_batch (sort / shuffle / prefetch glue) that no contract reaches: partition, no empty batch, limit for multi-item batches, termination (5 s deadline), determinism in the seed; without sort and shuffle: input order and greedy maximality',
                       bound='every size sequence of length <= 3 and every second one of length 4 over {0,1,3,9} plus four longer ones x sort x shuffle x prefetch in {0,2} x limit in {0,1,4,9,16} x {BatchSize, PaddedItemSize} x seeds'),
)

PROPS['C15'] = dict(
    title='Spelling corruption makes one bounded edit and never touches protected positions',
    groups=[dict(template='c15_providers.rs'), dict(template='c15_edit_word.rs', rlimit=600)],
    input_search=True,
    claim="corrupt::edit_word (all four arms; the iterator chains desugared by rules R26/R28/R29): never panics on the stated domain and returns EITHER the word and the exclusion set unchanged OR exactly one edit of an ENABLED kind: insert (table offers string t at position i <= n, i and i-1 not excluded; out = chars[..i] + t + chars[i..]; new exclusions = old ones shifted by |t| characters from i on, plus [i, i+|t|)), delete (provider allows position i < n, i not excluded; out = chars[..i] + chars[i+1..]; exclusions above i shifted down by one), replace (table offers t at i < n, i not excluded; out = chars[..i] + t + chars[i+1..]; exclusions above i shifted by |t|-1, plus [i, i+|t|), including the empty replacement), swap (provider allows i, i+1 < n, neither excluded; out = chars[..i] + chars[i+1] + chars[i] + chars[i+2..]; exclusions plus {i, i+1}); |t| is the number of characters of t in the word's own unit (code points or grapheme clusters); in every case the new exclusion set lies within the new word (character level). Providers: InsertEdits/ReplaceEdits::get_edits: no arithmetic fault for every position and word (incl. position 0 and the empty word for insert), the looked-up context is (previous character or <bow>, character or <eow>[, next or <eow>]); DeleteEdits/SwapEdits::can_edit: true only inside the word (and never the last character unless full_delete), for the predicate's verdict on exactly those characters.",
    not_covered=['chains of repeated edits (corrupt_spelling): the chain invariant (exclusions within the word) is the postcondition/precondition pair of edit_word, the loop around it is not a unit',
                 'the trait interfaces GetEdits / CanEdit / Rng are declared by hand in the prelude (their implementations are the provider units, verified against their own contracts, not against the trait contract); sample_edit (WeightedIndex) is assumed to return one of the edits',
                 'grapheme segmentation of the edited STRING (the result is specified as a character sequence spliced from the old characters and t)'],
    assumptions=['CharString::new/len/get/sub (get and sub are verified in C16 against the real CharString)', 'a string is the concatenation of its characters', 'std::borrow::Cow stand-in (only Cow::Borrowed is constructed)',
                 'HashSet idioms: into_iter().map(f).collect() is the image of the set; Option::unwrap_or_default; vstd HashSet contains/insert', 'String + &str appends',
                 'rand random_range(a..b) returns a value in the range and panics on an empty range'],
    domain=['excluded positions lie inside the word (maintained by a chain of edit_word calls: postcondition `within`)', 'table entries can be sampled (non-empty edits, weights accepted by WeightedIndex)',
            'ReplaceEdits::get_edits: non-empty word (documented by its expect)', 'SwapEdits::can_edit: idx < usize::MAX'],
    bounded_probe=dict(label='edit_word(public-API)', file='src/corrupt.rs', line=112,
                       what='the provider contexts at every position and the edit_word statement (exactly one enabled edit at a non-excluded position, re-indexed exclusion set) with fixed tables and total providers',
                       bound='the small input space enumerated by the probe (see rac/mod.rs, mod c15::search); cases are not counted for this older probe'),
)

_F1_ATTRS = """#[cfg_attr(kani, kani::requires(tp < (1 << %(bits)d) && fp < (1 << %(bits)d) && fn_ < (1 << %(bits)d) && (beta == 0.5 || beta == 1.0 || beta == 2.0)))]
#[cfg_attr(kani, kani::ensures(|r: &F1PrecRec| r.0.is_finite() && r.1.is_finite() && r.2.is_finite()))]
#[cfg_attr(kani, kani::ensures(|r: &F1PrecRec| 0.0 <= r.0 && r.0 <= 1.0 && 0.0 <= r.1 && r.1 <= 1.0 && 0.0 <= r.2 && r.2 <= 1.0))]
#[cfg_attr(kani, kani::ensures(|r: &F1PrecRec| !(fp == 0 && fn_ == 0 && tp > 0) || (r.0 == 1.0 && r.1 == 1.0 && r.2 == 1.0)))]
#[cfg_attr(kani, kani::ensures(|r: &F1PrecRec| tp != 0 || (r.0 == 0.0 && r.1 == 0.0 && r.2 == 0.0)))]
"""


def _f1_kani(tag, bits, harness, tier):
    return dict(crate='metrics_f1', tag=tag, harnesses=[harness], extra_args=['-Z', 'function-contracts'], tier=tier,
                timeout=2400, arg_names=['tp', 'fp', 'fn_'], fixed_args={'beta': {'f1_contract_beta1': 1.0, 'f1_contract_beta_half': 0.5, 'f1_contract_beta2': 2.0}[harness]},
                domain='tp, fp, fn < 2^%d, beta as fixed by the harness (complete over this domain: _f1 is loop-free)' % bits,
                extract=[dict(unit='src/metrics.rs type F1PrecRec'),
                         dict(unit='src/metrics.rs fn _f1', attrs=_F1_ATTRS % dict(bits=bits))])


PROPS['C13'] = dict(
    title='Correction metrics are total, bounded, calibrated and aggregate correctly',
    groups=[dict(template='c13_metrics.rs')],
    input_search=True,
    kani=[_f1_kani('q', 10, 'f1_contract_beta1', 'quick-only'),
          _f1_kani('t1', 20, 'f1_contract_beta1', 'thorough'),
          _f1_kani('t05', 20, 'f1_contract_beta_half', 'thorough'),
          _f1_kani('t2', 20, 'f1_contract_beta2', 'thorough')],
    claim='metrics::_f1 (extracted text, Kani function contract): precision, recall, F-beta finite and in [0,1]; (1,1,1) when fp == fn == 0 < tp; (0,0,0) when tp == 0 -- complete over the stated count domain because _f1 is loop-free; _f1 formula (Verus): precision = tp/max(tp+fp,1), recall = tp/max(tp+fn,1), F-beta = (1+b^2)PR/(b^2 P + R) or 0, as terms over float operations; _count_tp_fp_fn == the four-way counts (fold desugared by R20); binary_f1: Err iff the lengths differ (no panic), otherwise the F-beta of the four-way counts; TpFpFn::micro_f1 == F-beta of the SUMMED counts; TpFpFn::sequence_averaged_f1 == (left-to-right float sum of the per-sequence values, (1,1,1) for an empty pair) / max(n,1), component-wise; accuracy: Err iff the lengths differ, otherwise (number of equal positions) / max(n,1). _f1 is specified as a FUNCTION of the counts (f1_spec), not only bounded.',
    not_covered=['by contract: spelling_correction_f1 path (_group_words and its closing assert!), _whitespace_correction_tp_fp_fn (lazy HashSet intersection/difference iterators), _correction_f1 (rayon), mean edit distances (rayon + floats) -- the first three are explored by the bounded probe instead'],
    assumptions=['IEEE float + * / are total deterministic functions (results uninterpreted in Verus); x as f64 and powi are uninterpreted'],
    domain=['quick: tp, fp, fn < 2^10, beta = 1; thorough: < 2^20, beta in {0.5, 1, 2}'],
    bounded_probe=dict(label='correction_f1(public-API)', file='src/metrics.rs', line=227,
                       what='the clauses no contract reaches, through the public API: whitespace_correction_f1 (all three modes, micro and sequence averaged) equals the F-beta of the set comparison of the selected ground-truth / predicted whitespace operations (the "empty" flag included); spelling_correction_f1 never panics, is finite in [0,1], scores a prediction equal to the target without false positives or negatives and an unchanged prediction with zero true positives',
                       bound='whitespace: every (input, prediction, target) over the 8 spacings of "abcd", alone and in batches of two, x 3 modes x micro/sequence x graphemes x beta in {1, 0.5}; spelling: every (input, prediction, target) over 9 short sentences x micro/sequence x graphemes; mean (normalised) edit distance == mean of edit::distance over pairs of 6 sentences x graphemes'),
)

PROPS['C01'] = dict(
    title='Byte and character tokenizers encode every character faithfully and losslessly',
    groups=[dict(template='c01_byte.rs'), dict(template='c01_char.rs')],
    claim='Character tokenizer: process_token_input yields exactly one token per character of every regular part (the code point itself, or the unknown token when the character has more than one code point) and one token per special part; VocabTokenizer::tokenize (character tokenizer) = prefix ++ one id per token (vocabulary id, or the unknown id when the character is outside the alphabet / the special spelling is unknown) ++ suffix. Byte tokenizer: process_input yields exactly the UTF-8 bytes of every regular part as ids 0..255 and the single special id of every special part (for SOME split of the input that satisfies the assumed regex-split contract; with ignore_special_tokens the whole text is one regular part, so ids == bytes(text) and no error); tokenize = prefix ++ ids ++ suffix; de_tokenize spells exactly dec(ids), errors on an unknown special id, and is total on valid input; lemma: dec(ids_of(parts), keep) == utf8(text) for every split (round trip of the middle part).',
    not_covered=['VocabTokenizer::de_tokenize (join_tokens / join_parts of the character tokenizer): the round trip of the character tokenizer over its alphabet is not proved; covered: one id per character, unknown id outside the alphabet, and the id maps of C04', 'regex::Regex::find_iter (matches non-empty, ordered, disjoint, on character boundaries, each in the pattern language) and that the pattern language is the set of special-token spellings (established by new_base_tokenizer, not a unit): assumed; BaseTokenizer::split_input itself is verified against these', "that the final decode of prefix/suffix ids is stripped: the statement's round trip is proved for the id stream of the text (middle part)"],
    assumptions=['BaseTokenizer::split_input: parts concatenate to the input, Special parts are special-token spellings, no parsing => one Regular part', 'CharString::new partitions the string (sum of character UTF-8 lengths == byte length)', 'UTF-8 encoding is injective and distributes over concatenation', 'R6 helper contracts (vt_extend_bytes, vt_chain3, vt_extend_full, vt_code_point_groups, vt_single_map, vt_full_ones, vt_extend_slice) = documented std semantics of the replaced iterator chains', 'representation invariant of the special vocabulary (maps mutually inverse, special ids >= 256) established by new_base_tokenizer'],
    domain=[],
    input_search=True,
    bounded_probe=dict(label='tokenize/de_tokenize(public-API)', file='src/tokenization.rs', line=626,
                       what='the whole statement through the public constructors and Tokenize API, i.e. INCLUDING the parts no contract reaches: the special-token regex built in new_base_tokenizer (regex::escape, Regex are external), split_input, VocabTokenizer::de_tokenize of the character tokenizer; byte tokenizer: ids == prefix + UTF-8 bytes (special tokens as single ids) + suffix and decoding returns the text; character tokenizer: one id per character, unknown id outside the alphabet, round trip over the alphabet',
                       bound='every text of at most 3 pieces from {a, Z, space, U+00E4, e+U+0301, CRLF, woman-ZWJ-woman, <bos>, <|sep|>, [SEP], <, |, sep, <unk>, U+0000, U+10FFFF} x byte tokenizer configs (graphemes, code-point groups, pad_to_multiple_of 8, two-token prefix and suffix, special tokens with regex metacharacters) x ignore_special_tokens x character tokenizer configs'),
)

PROPS['C17'] = dict(
    title='Token groups partition the token sequence; tensorisation is faithful',
    groups=[dict(template='c17_tensor.rs'), dict(template='c17_sparse.rs'), dict(template='c01_byte.rs')],
    claim="ByteTokenizer::process_input: the (nested) group lengths sum to prefix + ids + suffix and there is one group per character / special token / prefix / suffix token; padding_mask: row b is true^len_b then false up to the maximum; pad_ids: row b is the item's ids followed only by padding, reported lengths are the true lengths; from_shape_vec cannot fail; token_groups_to_sparse_coo_matrix (for groupings whose nested lengths sum to the sequence lengths): declared size = [batch, largest group count, largest length], one column per token, every index inside the declared size, the offset assertion holds, no overflow.",
    not_covered=['the float weights written by token_groups_to_sparse_coo_matrix (values / get_weights); ', 'TokenGroup::get_weights (floats)', 'Tensorize for Batch<TrainItem>'],
    assumptions=['ndarray from_shape_vec/from_vec keep row-major data', 'R6 helper contracts (vt_extend_repeat, vt_max_or0, vt_max_len, vt_as_slice, vt_extend_cloned, vt_code_point_groups)'],
    domain=['rows * cols <= usize::MAX'],
    input_search=True,
    bounded_probe=dict(label='tokenize/sparse/tensorize(public-API)', file='src/data/mod.rs', line=393,
                       what='the whole statement through the public API, INCLUDING what no contract reaches: <Batch<TrainItem> as Tensorize>::tensorize (iterator unzip chains over enum variants), TokenGroup::len / get_weights (recursive weights as f32), and the end-to-end composition tokenizer -> groupings -> sparse matrix',
                       bound='texts of at most 3 pieces from {a, U+00E4, e+U+0301, CRLF, space, <bos>, a flag} x 16 byte-tokenizer configs (groups per text; batches of 1..3 texts for the sparse matrix, also with alternating sum / mean aggregation); tensorize: 4 task kinds x batches of 1..3 items with (input, target) lengths in {0,1,2,5}^2'),
)
