"""Per-property configuration: which contract templates decide which property."""

PROPS = {}

PROPS['C11'] = dict(
    title='clean() normal form; word boundaries',
    groups=[dict(template='c11_word_boundaries.rs'), dict(template='c11_clean.rs')],
    claim='',
    not_covered=[],
    assumptions=[],
    domain=[],
)

PROPS['C04'] = dict(
    title='Tokenizer vocabulary maps are mutually consistent bijections',
    groups=[dict(template='c04_bpe.rs'), dict(template='c04_byte.rs'), dict(template='c04_vocab.rs')],
    input_search=True,
    claim='',
    not_covered=[],
    assumptions=[],
    domain=[],
)

PROPS['C16'] = dict(
    title='Inference windows tile the text exactly and respect the size limits',
    groups=[dict(template='c16_windows.rs')],
    claim='',
    not_covered=[],
    assumptions=[],
    domain=[],
)

PROPS['C10'] = dict(
    title='Whitespace operations and repair are inverse; repair only touches whitespace',
    groups=[dict(template='c10_whitespace.rs')],
    claim='',
    not_covered=[],
    assumptions=[],
    domain=[],
)

PROPS['C18'] = dict(
    title='Word matching is a longest common subsequence; edited words are its complement',
    groups=[dict(template='c18_match_words.rs')],
    claim='',
    not_covered=[],
    assumptions=[],
    domain=[],
)

PROPS['C12'] = dict(
    title='Edit distance equals the reference metric and operations() is a minimal script',
    groups=[dict(template='c12_edit.rs', rlimit=400)],
    kani=[dict(crate='float_lemmas', harnesses=['norm_quotient', 'unit_quotient'],
               domain='0 <= n <= m, 1 <= m < 2^32 (complete over this domain: loop-free, fully symbolic)')],
    input_search=True,
    claim='',
    not_covered=[],
    assumptions=[],
    domain=[],
)

PROPS['C07'] = dict(
    title='The multi-source generator yields every item exactly once and terminates',
    groups=[dict(template='c07_generator.rs')],
    input_search=True,
    claim='',
    not_covered=[],
    assumptions=[],
    domain=[],
)

PROPS['C06'] = dict(
    title='Batching partitions the item stream and respects the batch limit',
    groups=[dict(template='c06_batch.rs'), dict(template='c06_subseq.rs')],
    claim='',
    not_covered=[],
    assumptions=[],
    domain=[],
)

PROPS['C15'] = dict(
    title='Spelling corruption makes one bounded edit and never touches protected positions',
    groups=[dict(template='c15_providers.rs')],
    input_search=True,
    claim='',
    not_covered=[],
    assumptions=[],
    domain=[],
)

_F1_ATTRS = """#[cfg_attr(kani, kani::requires(tp < (1 << %(bits)d) && fp < (1 << %(bits)d) && fn_ < (1 << %(bits)d) && (beta == 0.5 || beta == 1.0 || beta == 2.0)))]
#[cfg_attr(kani, kani::ensures(|r: &F1PrecRec| r.0.is_finite() && r.1.is_finite() && r.2.is_finite()))]
#[cfg_attr(kani, kani::ensures(|r: &F1PrecRec| 0.0 <= r.0 && r.0 <= 1.0 && 0.0 <= r.1 && r.1 <= 1.0 && 0.0 <= r.2 && r.2 <= 1.0))]
#[cfg_attr(kani, kani::ensures(|r: &F1PrecRec| !(fp == 0 && fn_ == 0 && tp > 0) || (r.0 == 1.0 && r.1 == 1.0 && r.2 == 1.0)))]
#[cfg_attr(kani, kani::ensures(|r: &F1PrecRec| tp != 0 || (r.0 == 0.0 && r.1 == 0.0 && r.2 == 0.0)))]
"""


def _f1_kani(tag, bits, harness, tier):
    return dict(crate='metrics_f1', tag=tag, harnesses=[harness], extra_args=['-Z', 'function-contracts'], tier=tier,
                timeout=2400, arg_names=['tp', 'fp', 'fn_'], fixed_args={'beta': {'f1_contract_beta1': 1.0, 'f1_contract_beta_half': 0.5, 'f1_contract_beta2': 2.0}[harness]},
                domain='tp, fp, fn < 2^%d, beta as fixed by the harness (complete over this domain: _f1 is loop-free)' % bits,
                extract=[dict(unit='src/metrics.rs type F1PrecRec'),
                         dict(unit='src/metrics.rs fn _f1', attrs=_F1_ATTRS % dict(bits=bits))])


PROPS['C13'] = dict(
    title='Correction metrics are total, bounded, calibrated and aggregate correctly',
    groups=[dict(template='c13_metrics.rs')],
    input_search=True,
    kani=[_f1_kani('q', 10, 'f1_contract_beta1', 'quick-only'),
          _f1_kani('t1', 20, 'f1_contract_beta1', 'thorough'),
          _f1_kani('t05', 20, 'f1_contract_beta_half', 'thorough'),
          _f1_kani('t2', 20, 'f1_contract_beta2', 'thorough')],
    claim='',
    not_covered=[],
    assumptions=[],
    domain=[],
)

PROPS['C01'] = dict(
    title='Byte and character tokenizers encode every character faithfully and losslessly',
    groups=[dict(template='c01_byte.rs')],
    claim='',
    not_covered=[],
    assumptions=[],
    domain=[],
)

PROPS['C17'] = dict(
    title='Token groups partition the token sequence; tensorisation is faithful',
    groups=[dict(template='c17_tensor.rs'), dict(template='c01_byte.rs')],
    claim='',
    not_covered=[],
    assumptions=[],
    domain=[],
)
