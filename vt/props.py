"""Per-property configuration: which contract templates decide which property."""

PROPS = {}

PROPS['C11'] = dict(
    title='clean() normal form; word boundaries',
    groups=[dict(template='c11_word_boundaries.rs')],
    claim='',
    not_covered=[],
    assumptions=[],
    domain=[],
)
