#!/bin/bash
# usage: muttest.sh <PID> <file> <sed-expr>   -- apply a one-off mutation to /repo, run the check, revert
pid=$1; f=$2; expr=$3
cd /repo && sed -i "$expr" $f && git diff --stat | tail -1
cd /verif && VT_OUT=/verif/gen/_scratch_out ./check $pid | cut -c1-300; echo "rc=${PIPESTATUS[0]}"
git -C /repo checkout -- .
