"""check driver: weave -> verify -> classify -> evidence / replay / verdict lines."""
import concurrent.futures as cf
import json
import os
import re
import shutil
import subprocess
import sys
import time

from . import weave, runner, rules, lexer, kani
from .weave import WeaveError, VERIF
from .props import PROPS

_OUT = os.environ.get('VT_OUT')          # redirected by the mutation catalogue so that sub-runs do not touch the real outputs
GEN = os.path.join(_OUT, 'gen') if _OUT else os.path.join(VERIF, 'gen')
EVID = os.path.join(_OUT, 'evidence') if _OUT else os.path.join(VERIF, 'evidence')
REPLAY = os.path.join(_OUT, 'replay') if _OUT else os.path.join(VERIF, 'replay')
MUTANTS = os.path.join(VERIF, 'mutants')
KNOWN = os.path.join(VERIF, 'known_findings.txt')
CONTRACTS = os.path.join(VERIF, 'contracts')

TRUST_PATTERNS = [
    ('external_body', re.compile(r'#\[verifier::external_body\]')),
    ('assume_specification', re.compile(r'\bassume_specification\b')),
    ('external_type_specification', re.compile(r'external_type_specification')),
    ('external_fn_specification', re.compile(r'external_fn_specification')),
    ('external', re.compile(r'#\[verifier::external\]')),
    ('uninterp', re.compile(r'\buninterp\s+spec\s+fn\b')),
    ('assume', re.compile(r'\bassume\s*\(')),
    ('admit', re.compile(r'\badmit\s*\(')),
    ('axiom', re.compile(r'\baxiom\s+fn\b|#\[verifier::external_body\]\s*(pub\s+)?(broadcast\s+)?proof fn')),
    ('exec_allows_no_decreases_clause', re.compile(r'exec_allows_no_decreases_clause')),
    ('PartialEqSpecImpl', re.compile(r'impl\b.*PartialEqSpecImpl\s+for')),
]


def scan_trusted(text, fname):
    """mechanical scan of a generated file for every assumption-introducing construct"""
    out = []
    lines = text.split('\n')
    for i, ln in enumerate(lines):
        code = ln.split('//')[0]
        for name, rx in TRUST_PATTERNS:
            if rx.search(code):
                # describe with the next signature-like line
                sig = code.strip()
                if name in ('external_body', 'external'):
                    for k in range(i + 1, min(i + 6, len(lines))):
                        if re.search(r'\b(fn|struct|enum|impl)\b', lines[k]):
                            sig = lines[k].strip()
                            break
                out.append('%s: %s  [%s:%d]' % (name, sig[:160], fname, i + 1))
    return out


def _kani_excerpt(out):
    k = out.find('RESULTS:')
    return out[k:k + 6000] if k >= 0 else out[-6000:]


def load_known():
    known, fixed = [], []
    if os.path.exists(KNOWN):
        for ln in open(KNOWN):
            ln = ln.strip()
            if ln.startswith('known:'):
                m = re.match(r'known:\s+property=(\S+)\s+obligation=(\S+)\s+(.*)$', ln)
                if m:
                    known.append(dict(property=m.group(1), obligation=m.group(2), what=m.group(3)))
            elif ln.startswith('fixed:'):
                fixed.append(ln)
    return known, fixed


def clause_counts(text):
    toks, _ = lexer.lex(text)
    c = {}
    for t in toks:
        if t.text in ('requires', 'ensures', 'invariant', 'decreases', 'assert'):
            c[t.text] = c.get(t.text, 0) + 1
    return c


def make_vacuity_variant(woven_units):
    """Return list of (unit, marker) and a function text -> text that inserts `proof { assert(false); }` right
    after the body-opening brace of every fn unit."""
    pass


def body_open_index(tokens_kinds):
    """index (in the woven token list) of the repo `{` that opens the fn body: the first repo `{` at bracket
    depth 0 (counted over repo tokens only) after the `fn` keyword"""
    depth = 0
    seen_fn = False
    for k, (kind, t) in enumerate(tokens_kinds):
        if kind != 'repo':
            continue
        x = t.text
        if x == 'fn' and depth == 0:
            seen_fn = True
            continue
        if not seen_fn:
            continue
        if x in ('(', '['):
            depth += 1
        elif x in (')', ']'):
            depth -= 1
        elif x == '{' and depth == 0:
            return k
    return None


class PropertyRun:
    def __init__(self, pid, tier, seed):
        self.pid = pid
        self.tier = tier
        self.seed = seed
        self.cfg = PROPS[pid]
        self.undecided = []       # machinery problems
        self.violations = []      # dicts
        self.notes = []
        self.units = []
        self.groups = []
        self.t0 = time.time()

    # ------------------------------------------------------------------ weaving
    def weave_all(self):
        gdir = os.path.join(GEN, self.pid)
        shutil.rmtree(gdir, ignore_errors=True)
        os.makedirs(gdir, exist_ok=True)
        for g in self.cfg['groups']:
            tmpl = os.path.join(CONTRACTS, g['template'])
            grp = dict(cfg=g, template=tmpl, name=os.path.splitext(g['template'])[0])
            try:
                w = weave.weave_template(tmpl)
            except (WeaveError, rules.RuleError, ValueError) as e:
                self.undecided.append('group=%s reason=weave: %s' % (grp['name'], e))
                grp['error'] = str(e)
                self.groups.append(grp)
                continue
            grp['woven'] = w
            grp['path'] = os.path.join(gdir, grp['name'] + '.rs')
            open(grp['path'], 'w').write(w['text'])
            # vacuity variant
            vac_text, markers = self.vacuity_text(w)
            grp['vac_path'] = os.path.join(gdir, grp['name'] + '_vacuity.rs')
            grp['vac_markers'] = markers
            open(grp['vac_path'], 'w').write(vac_text)
            self.groups.append(grp)

    def vacuity_text(self, w):
        """every fn unit gets `proof { assert(false); }` as first statement; each must FAIL"""
        text = w['text']
        lines = text.split('\n')
        markers = {}
        # operate per unit on generated line ranges: find the body-open brace by lexing the unit text
        out = text
        offset_inserts = []
        for u in w['units']:
            if u.kind != 'fn':
                continue
            toks, _ = weave.lex2(u.gen_text)
            # identify repo tokens: align current normalised text inside gen_text
            # simpler: the body `{` is the first `{` at depth 0 that is not inside clause expressions; we
            # recorded it during weaving
            k = getattr(u, 'body_open_tok', None)
            if k is None:
                continue
            offset_inserts.append((u, k))
        # rebuild text unit by unit
        if not offset_inserts:
            return text, markers
        pieces = []
        pos = 0
        for u, k in offset_inserts:
            start = text.index(u.gen_text, pos)
            toks, tail = weave.lex2(u.gen_text)
            t = toks[k]
            cut = start + t.pos + 1
            pieces.append(text[pos:cut])
            marker = 'vt_vacuity_%s' % re.sub(r'[^A-Za-z0-9]', '_', u.label)
            pieces.append(' proof { let %s = 0int; assert(false); }' % marker)
            markers[u.label] = marker
            pos = cut
        pieces.append(text[pos:])
        return ''.join(pieces), markers

    # ------------------------------------------------------------------ verification
    def verify_all(self):
        jobs = []
        rl_mult = 10 if self.tier == 'thorough' else 1
        with cf.ThreadPoolExecutor(max_workers=12) as ex:
            for grp in self.groups:
                if 'woven' not in grp:
                    continue
                rl = grp['cfg'].get('rlimit')
                if rl:
                    rl = rl * rl_mult
                grp['fut'] = ex.submit(runner.run_verus, grp['path'], rl)
                grp['vac_fut'] = ex.submit(runner.run_verus, grp['vac_path'], rl, 1)
            self.kani_jobs = []
            for ks in self.cfg.get('kani', []):
                if ks.get('tier', 'quick') == 'thorough' and self.tier != 'thorough':
                    continue
                if ks.get('tier') == 'quick-only' and self.tier != 'quick':
                    continue
                try:
                    cdir, kunits = kani.prepare_crate(self.pid, ks, os.path.join(GEN, self.pid))
                except (WeaveError, rules.RuleError, ValueError) as e:
                    self.undecided.append('kani crate=%s reason=extract: %s' % (ks['crate'], e))
                    continue
                # harnesses of one crate run sequentially (shared target dir), crates in parallel
                self.kani_jobs.append(dict(spec=ks, dir=cdir, units=kunits,
                                           fut=ex.submit(self._run_kani_crate, cdir, ks)))
            bp = self.cfg.get('bounded_probe')
            self.bounded_res = None
            bp_fut = None
            if bp and not os.environ.get('VT_NO_PROBE'):
                from . import probes
                bp_fut = ex.submit(probes.bounded, self.pid)
            for grp in self.groups:
                if 'fut' in grp:
                    grp['res'] = grp['fut'].result()
                    grp['vac_res'] = grp['vac_fut'].result()
            if bp_fut is not None:
                try:
                    self.bounded_res = bp_fut.result()
                except Exception as e:
                    self.bounded_res = dict(error=str(e), fails=[], ok=False, stats=None, cmd='', tail=str(e))
            for job in self.kani_jobs:
                job['results'] = job['fut'].result()

    def _run_kani_crate(self, cdir, ks):
        out = []
        for h in ks['harnesses']:
            out.append(kani.run_harness(cdir, h, timeout=ks.get('timeout', 1500), extra=ks.get('extra_args')))
        return out

    def try_signature_only(self, grp):
        """a changed, loop-free unit whose inner proof text no longer fits: re-weave it with its contract only"""
        grp['fallback_done'] = True
        w = grp['woven']
        cands = [u.label for u in w['units'] if u.kind == 'fn' and not u.identical_to_frozen
                 and not re.search(r'\b(while|loop|for)\b', re.sub(r'//[^\n]*', '', u.cur_text))]
        if not cands:
            return False
        try:
            w2 = weave.weave_template(grp['template'], sig_only=tuple(cands))
        except (WeaveError, rules.RuleError, ValueError):
            return False
        grp['woven'] = w2
        grp['sig_only'] = cands
        open(grp['path'], 'w').write(w2['text'])
        rl = grp['cfg'].get('rlimit')
        grp['res'] = runner.run_verus(grp['path'], rl)
        return True

    # ------------------------------------------------------------------ classification
    def classify_kani(self):
        self.kani_ev = []
        for job in getattr(self, 'kani_jobs', []):
            ks = job['spec']
            for r in job['results']:
                ev = dict(crate=ks['crate'], harness=r['harness'], cmd='(cd %s && %s)' % (job['dir'], r['cmd']),
                          checks=r['total'], failed=r['failed'], success=r['success'], wall_s=round(r['wall'], 1),
                          solver_s=r['solver_s'], domain=ks.get('domain', ''), backend='Kani 0.68 / CBMC 6.11 (+ CaDiCaL/kissat)',
                          units=[{k: v for k, v in u.items() if k != 'raw'} for u in job['units']])
                self.kani_ev.append(ev)
                if r['timed_out']:
                    self.undecided.append('kani harness=%s reason=timeout after %.0fs' % (r['harness'], r['wall']))
                    continue
                if r['success'] and r['failed'] == 0:
                    continue
                if r['verdict_failed'] and r['failed_checks'] and job['units']:
                    # a contract / assertion over code extracted from /repo fails
                    cu = [x for x in job['units'] if x['contract_attributes']] or [x for x in job['units'] if x['kind'] == 'fn'] or job['units']
                    u = cu[-1]
                    for fc in r['failed_checks']:
                        import hashlib
                        chash = hashlib.sha1(fc['description'].encode()).hexdigest()[:6]
                        ob = '%s/%s/kani-%s#%s@%s:%d' % (self.pid, u['unit'], r['harness'], chash, u['file'], u['lines'][0])
                        self.violations.append(dict(obligation=ob, unit=u['unit'], kind='kani-check', message=fc['description'],
                                                    clause_text=fc['check'], gen_file=job['dir'], gen_line=0, clause_gen_line=0,
                                                    repo_file=u['file'], repo_line=u['lines'][0],
                                                    rendered=_kani_excerpt(r['out']), unit_raw=u['raw'], unit_sha256=u['sha256'],
                                                    group='kani_' + ks['crate'], checker_cmd=ev['cmd'], identical_to_frozen=None,
                                                    kani=dict(crate_dir=job['dir'], harness=r['harness'], extra_args=ks.get('extra_args'),
                                                              arg_names=ks.get('arg_names'), fixed_args=ks.get('fixed_args', {}))))
                    continue
                self.undecided.append('kani harness=%s reason=%s' % (r['harness'],
                                      'lemma (no repo code) failed' if r['verdict_failed'] else 'no verdict: ' + r['out'][-400:].replace('\n', ' | ')))

    def unit_at(self, grp, line):
        for u in grp['woven']['units']:
            if u.gen_start <= line <= u.gen_end:
                return u
        return None

    def classify(self):
        for grp in self.groups:
            if 'res' not in grp:
                continue
            res = grp['res']
            js = res['json']
            name = grp['name']
            if res['timed_out']:
                self.undecided.append('group=%s reason=verus timeout after %.0fs' % (name, res['wall']))
                continue
            if js is None:
                self.undecided.append('group=%s reason=verus produced no JSON (rc=%s): %s' % (name, res['rc'], (res['stderr'] or res['stdout_head'])[:400]))
                continue
            vr = js.get('verification-results', {})
            grp['verified'] = vr.get('verified', 0)
            grp['errors'] = vr.get('errors', 0)
            errs = runner.errors_of(res)
            if vr.get('encountered-vir-error') or (vr.get('encountered-error') and not vr.get('errors')):
                # compile / unsupported-feature error
                msg = '; '.join(e['message'] for e in errs[:3])
                if not grp.get('fallback_done') and self.try_signature_only(grp):
                    res = grp['res']
                    js = res['json']
                    vr = js.get('verification-results', {}) if js else {}
                    errs = runner.errors_of(res) if js else []
                    if js is None or vr.get('encountered-vir-error') or (vr.get('encountered-error') and not vr.get('errors')):
                        self.undecided.append('group=%s reason=verus rejected the file (also with signature-only weaving): %s' % (name, msg[:400]))
                        continue
                    grp['verified'] = vr.get('verified', 0)
                    grp['errors'] = vr.get('errors', 0)
                    self.notes.append('group=%s: inner proof text could not be transported onto a restructured body; units %s verified against their '
                                      'pre/postconditions only (signature-only weaving)' % (name, grp['sig_only']))
                else:
                    self.undecided.append('group=%s reason=verus rejected the file (not a verification failure): %s' % (name, msg[:500]))
                    continue
            for e in errs:
                kind = runner.classify_message(e['message'])
                # locate
                u = None
                uline = None
                for s in sorted(e['spans'], key=lambda s: (not s['primary'])):
                    uu = self.unit_at(grp, s['line'])
                    if uu is not None and uu.kind == 'fn':
                        u = uu
                        uline = s
                        break
                if kind is None:
                    self.undecided.append('group=%s reason=unclassified verus error: %s' % (name, e['message'][:300]))
                    continue
                if kind == 'rlimit':
                    self.undecided.append('group=%s unit=%s reason=resource limit: %s' % (name, u.label if u else '?', e['message'][:200]))
                    continue
                if u is not None and getattr(u, 'sig_only', False) and kind not in ('postcondition', 'callee-precondition', 'arithmetic-overflow', 'division-by-zero', 'panic-reachable'):
                    self.undecided.append('group=%s unit=%s reason=%s not decidable with signature-only weaving' % (name, u.label, kind))
                    continue
                if u is None:
                    self.undecided.append('group=%s reason=verification failure inside the specification library (not in a unit of /repo): %s @gen line %s'
                                          % (name, e['message'], [s['line'] for s in e['spans']]))
                    continue
                # the clause text: the span that is not inside the unit's repo text, or the primary one
                # the failing clause: the span Verus labels "failed this postcondition / failed precondition / ...",
                # otherwise the primary span
                clause = None
                for s in e['spans']:
                    if s.get('label') and 'failed' in s['label']:
                        clause = s
                        break
                if clause is None:
                    for s in e['spans']:
                        if s.get('primary'):
                            clause = s
                            break
                ref = clause or uline
                repo_line = self.repo_line_of(u, uline)
                import hashlib
                ctext = re.sub(r'\s+', ' ', (ref['text'] or '')).strip().rstrip(',')
                chash = hashlib.sha1(ctext.encode()).hexdigest()[:6]
                ob = '%s/%s/%s#%s@%s:%d' % (self.pid, u.label, kind, chash, u.file, repo_line)
                self.violations.append(dict(obligation=ob, unit=u.label, kind=kind, message=e['message'],
                                            clause_text=ref['text'], gen_file=grp['path'], gen_line=uline['line'],
                                            clause_gen_line=ref['line'],
                                            repo_file=u.file, repo_line=repo_line, rendered=e['rendered'],
                                            unit_raw=u.raw, unit_sha256=u.raw_sha, group=name,
                                            checker_cmd=res['cmd'], identical_to_frozen=u.identical_to_frozen, new_closures=getattr(u, 'new_closures', 0),
                                            weaving='signature-only' if getattr(u, 'sig_only', False) else 'full'))
            # consistency: verus reported errors but we classified none
            if grp['errors'] and not errs:
                self.undecided.append('group=%s reason=verus reported %d errors without diagnostics' % (name, grp['errors']))
            # vacuity
            vres = grp['vac_res']
            vjs = vres['json']
            if vjs is None or vres['timed_out']:
                self.undecided.append('group=%s reason=vacuity run failed (rc=%s)' % (name, vres['rc']))
                continue
            vvr = vjs.get('verification-results', {})
            if vvr.get('encountered-vir-error') or (vvr.get('encountered-error') and not vvr.get('errors')):
                # the vacuity variant does not compile (same cause as the main file, e.g. a restructured body)
                if not grp.get('sig_only'):
                    self.undecided.append('group=%s reason=vacuity variant rejected by verus' % name)
                else:
                    self.notes.append('group=%s: vacuity variant not run (signature-only weaving)' % name)
                continue
            verrs = runner.errors_of(vres)
            failing_lines = set()
            for e in verrs:
                for s in e['spans']:
                    failing_lines.add(s['line'])
            vtext = open(grp['vac_path']).read().split('\n')
            grp['vacuity'] = {}
            for label, marker in grp['vac_markers'].items():
                ln = [i + 1 for i, l in enumerate(vtext) if marker in l]
                ok = any(l in failing_lines for l in ln)
                grp['vacuity'][label] = ok
                if not ok:
                    # not failing: either contradiction in requires/assumptions, or verus stopped early
                    if vjs.get('verification-results', {}).get('encountered-vir-error'):
                        self.undecided.append('group=%s reason=vacuity variant rejected' % name)
                        break
                    self.undecided.append('group=%s unit=%s reason=VACUOUS: `assert(false)` at the start of the unit verified -- '
                                          'preconditions/assumptions are contradictory' % (name, label))

    def classify_bounded(self):
        """bounded probe (a clause no contract reaches): every failing class is a violation with its concrete input"""
        bp = self.cfg.get('bounded_probe')
        self.bounded_ev = []
        if not bp:
            return
        r = self.bounded_res
        if r is None:
            self.notes.append('bounded probe skipped (VT_NO_PROBE)')
            self.bounded_ev.append(dict(what=bp['what'], bound=bp['bound'], ran=False, reason='VT_NO_PROBE'))
            return
        stats = r.get('stats')
        if stats is None or not stats.get('cases'):
            self.undecided.append('bounded-probe reason=the probe did not run: %s' % (r.get('tail', '')[-300:].replace('\n', ' | ')))
            self.bounded_ev.append(dict(what=bp['what'], bound=bp['bound'], ran=False, cmd=r.get('cmd')))
            return
        import hashlib
        for f in r['fails']:
            cls = f.get('class', 'other')
            chash = hashlib.sha1(cls.encode()).hexdigest()[:6]
            ob = '%s/%s/bounded-probe#%s@%s:%d' % (self.pid, bp['label'], chash, bp['file'], bp['line'])
            self.violations.append(dict(obligation=ob, unit=bp['label'], kind='bounded-probe', message=f['violated'],
                                        clause_text='class: ' + cls, gen_file=None, gen_line=None, clause_gen_line=None,
                                        repo_file=bp['file'], repo_line=bp['line'], rendered=f['violated'],
                                        unit_raw=None, unit_sha256=None, group='bounded_probe',
                                        checker_cmd=r['cmd'], identical_to_frozen=None, weaving='none (runs the real crate)',
                                        failing_input=f['input'], verifier='bounded probe against the real crate'))
        self.bounded_ev.append(dict(what=bp['what'], bound=bp['bound'], ran=True, cases=stats['cases'],
                                    failing_classes=[f.get('class') for f in r['fails']], cmd=r['cmd'],
                                    label='bounded -- not counted among the discharged obligations'))

    def repo_line_of(self, u, span):
        """best effort: find the highlighted source line text inside the unit's raw text"""
        if span is None:
            return u.repo_start
        txt = span['text'].strip()
        if txt:
            for i, ln in enumerate(u.raw.split('\n')):
                if ln.strip() == txt:
                    return u.repo_start + i
            # try: the generated line content
        return u.repo_start

    # ------------------------------------------------------------------ reporting
    def report(self):
        os.makedirs(EVID, exist_ok=True)
        known, fixed = load_known()
        known_here = [k for k in known if k['property'] == self.pid]
        out_lines = []
        real_violations = []
        known_hit = set()
        seen = set()
        for v in self.violations:
            if v['obligation'] in seen:
                continue
            seen.add(v['obligation'])
            # a known finding is identified by property / unit / kind / clause hash / file; the line number may shift when
            # unrelated lines are added above the unit
            nl = lambda o: re.sub(r':\d+$', '', o)
            kf = [k for k in known_here if nl(k['obligation']) == nl(v['obligation'])]
            if kf:
                known_hit.add(v['obligation'])
                out_lines.append('KNOWN-FINDING: property=%s %s (%s)' % (self.pid, kf[0]['what'], v['obligation']))
                continue
            real_violations.append(v)
        rdir = os.path.join(REPLAY, self.pid)
        shutil.rmtree(rdir, ignore_errors=True)
        if real_violations:
            os.makedirs(rdir, exist_ok=True)
        downgraded = []
        for v in list(real_violations):
            fname = re.sub(r'[^A-Za-z0-9_.@-]', '_', v['obligation']) + '.json'
            path = os.path.join(rdir, fname)
            rep = dict(property=self.pid, obligation=v['obligation'], unit=v['unit'], kind=v['kind'],
                       verifier='verus', verifier_message=v['message'], failed_clause=v['clause_text'],
                       verifier_output=v['rendered'], repo_file=v['repo_file'], repo_line=v['repo_line'],
                       unit_source=v['unit_raw'], unit_sha256=v['unit_sha256'], generated_file=v['gen_file'],
                       generated_line=v['gen_line'], checker_cmd=v['checker_cmd'],
                       unit_text_identical_to_frozen=v['identical_to_frozen'], weaving=v.get('weaving', 'full'),
                       failing_input=None,
                       note='Verus gives no counterexample; no failing input was searched for this obligation')
            if v.get('failing_input') is not None:
                rep['verifier'] = v.get('verifier', 'probe')
                rep['failing_input'] = v['failing_input']
                rep['failing_input_violates'] = v['message']
                rep['note'] = 'found by the bounded probe running the real crate (cargo test --features verif); replay with ./check %s --replay <this file>' % self.pid
            else:
                self.try_find_input(v, rep)
            # An inserted proof ASSERTION (a hint inside a body, not a contract clause) that stops being provable on CHANGED
            # code means "the proof does not go through any more", which by itself is undecided, not a violation -- unless a
            # concrete failing input exists in this run (for this obligation or from the bounded stand-in).
            corroborated = rep.get('failing_input') is not None or any(x.get('kind') == 'bounded-probe' for x in real_violations)
            changed = v.get('identical_to_frozen') is False
            why = None
            if v['kind'] == 'assertion' and changed:
                why = 'an inserted proof assertion is no longer provable on the changed code'
            elif v.get('weaving') == 'signature-only':
                why = 'the restructured body was verified without its proof hints (signature-only weaving) and an obligation is not provable'
            elif changed and v.get('new_closures'):
                why = 'the changed code contains a new closure, which carries no specification, and an obligation is not provable'
            elif changed and any(re.search(rx, v.get('clause_text') or '') for rx in self.cfg.get('stronger_than_statement', [])):
                # a clause that pins HOW the implementation achieves the statement (e.g. which draw of the seeded stream decides
                # which character): other schemes satisfy the statement too, so its failure alone is not a violation
                why = 'the clause fixes an implementation scheme that is stronger than the statement, and it is not provable on the changed code'
            if why and not corroborated and not os.environ.get('VT_NO_PROBE'):
                self.undecided.append('group=%s unit=%s reason=%s, and no failing input was found (%s): %s'
                                      % (v.get('group'), v['unit'], why, v['kind'], re.sub(r'\s+', ' ', v.get('clause_text') or '')[:140]))
                downgraded.append(v)
                continue
            json.dump(rep, open(path, 'w'), indent=1)
            if rep.get('failing_input') is not None:
                out_lines.append('VIOLATION property=%s replay=%s' % (self.pid, path))
            else:
                out_lines.append('VIOLATION property=%s replay=%s no-failing-input-found' % (self.pid, path))
        for v in downgraded:
            real_violations.remove(v)
        # The verifier could not decide (changed code outside the reach of the transported contracts).  A concrete failing
        # input found by the probe against the REAL crate is still a demonstrated violation: report it with that input.
        # (The probe never turns an undecided run into OK; without a failing input the run stays undecided.)
        if self.undecided and not real_violations and self.cfg.get('input_search') and not os.environ.get('VT_NO_PROBE'):
            try:
                from . import probes
                rep = dict(property=self.pid, verifier='probe after an undecided verifier run', failing_input=None,
                           undecided=list(self.undecided))
                f = probes.search(self.pid, dict(unit=''), rep)
            except Exception as e:
                f, rep = None, dict(input_search_error=str(e))
            if f and rep.get('failing_input') is not None:
                import hashlib
                cls = re.sub(r'[^A-Za-z ]+', ' ', f.get('violated', ''))[-80:]
                ob = '%s/undecided-unit/probe#%s' % (self.pid, hashlib.sha1(cls.encode()).hexdigest()[:6])
                kf = [k for k in known_here if k['obligation'] == ob]
                if kf:
                    out_lines.append('KNOWN-FINDING: property=%s %s (%s)' % (self.pid, kf[0]['what'], ob))
                else:
                    os.makedirs(rdir, exist_ok=True)
                    path = os.path.join(rdir, re.sub(r'[^A-Za-z0-9_.@-]', '_', ob) + '.json')
                    rep.update(obligation=ob, kind='probe-after-undecided', verifier_output='\n'.join(self.undecided),
                               failing_input_violates=f.get('violated'),
                               note='Verus could not decide the changed code (see `undecided`); the probe found this input, which '
                                    'violates the property statement when run against the real crate (cargo test --features verif)')
                    json.dump(rep, open(path, 'w'), indent=1)
                    out_lines.append('VIOLATION property=%s replay=%s' % (self.pid, path))
                    real_violations.append(dict(obligation=ob, unit='undecided-unit', kind='probe-after-undecided',
                                                message=f.get('violated'), clause_text='', failing_input=rep['failing_input']))
                    self.violations.append(real_violations[-1])
        for u in self.undecided:
            out_lines.append('UNDECIDED property=%s %s' % (self.pid, u))
        # evidence
        wall = time.time() - self.t0
        obligations = 0
        discharged = 0
        units_ev = []
        trusted = []
        fb_all = []
        smt_ms = 0
        cmds = []
        counts = {}
        samples = []
        for grp in self.groups:
            if 'woven' not in grp:
                continue
            w = grp['woven']
            res = grp.get('res')
            js = res['json'] if res else None
            fb = runner.function_breakdown(js)
            fb_all += fb
            if js:
                vr = js.get('verification-results', {})
                obligations += vr.get('verified', 0) + vr.get('errors', 0)
                discharged += vr.get('verified', 0)
                try:
                    smt_ms += js['times-ms']['smt']['total']
                except Exception:
                    pass
            if res:
                cmds.append(res['cmd'])
            trusted += scan_trusted(w['text'], os.path.basename(grp['path']))
            cc = clause_counts(w['text'])
            for k, v in cc.items():
                counts[k] = counts.get(k, 0) + v
            for u in w['units']:
                units_ev.append(dict(unit=u.label, kind=u.kind, file=u.file, lines=[u.repo_start, u.repo_end],
                                     sha256=u.raw_sha, rules_applied=u.rules_applied,
                                     text_identical_to_frozen=u.identical_to_frozen,
                                     inserted_ghost_runs=u.ghost_runs,
                                     nonvacuous=grp.get('vacuity', {}).get(u.label)))
        kani_ev = getattr(self, 'kani_ev', [])
        for ke in kani_ev:
            if ke['checks']:
                obligations += ke['checks']
                discharged += ke['checks'] - (ke['failed'] or 0)
            cmds.append(ke['cmd'])
        for f in fb_all[:6]:
            samples.append(dict(obligation='verus verification unit', function=f['function'], mode=f['mode'],
                                ms=f['ms'], rlimit=f['rlimit'], discharged=f['success']))
        for v in self.violations[:5]:
            samples.append(dict(obligation=v['obligation'], failed=True, message=v['message'], clause=v['clause_text']))
        # units whose only failing obligations are listed known findings are reported separately
        bad_units = set(v['unit'] for v in real_violations)
        known_units = set(v['unit'] for v in self.violations if v['obligation'] in known_hit and v['kind'] != 'bounded-probe') - bad_units
        obligations -= len(known_units)
        cfg = self.cfg
        assumptions = list(cfg.get('assumptions', []))
        ev = dict(
            property_id=self.pid, tier=self.tier, seed=self.seed, level='proof',
            coverage=dict(
                obligations=obligations, discharged=discharged,
                checker_cmd=' && '.join(cmds) if cmds else 'verus (not run)',
                trusted_base=sorted(set(trusted)) + ['domain: ' + d for d in cfg.get('domain', [])],
                explanation=cfg.get('claim', ''),
                obligation_unit='one obligation = one Verus verification unit (function: all its postconditions, callee '
                                'preconditions, loop invariants, termination measures, overflow/index/panic checks); '
                                'clause_counts gives the number of specification clauses inside them',
                clause_counts=counts,
                functions_under_contract=[u['unit'] for u in units_ev if u['kind'] == 'fn'],
                units=units_ev,
                per_function=fb_all,
                backend='Verus 0.2026.09.13 -> Z3 (bundled with Verus)',
                solver_ms=smt_ms,
                not_covered=cfg.get('not_covered', []),
                vacuity={g['name']: g.get('vacuity') for g in self.groups},
                undecided=self.undecided, notes=self.notes,
                violations=[dict(obligation=v['obligation'], message=v['message'], clause=v['clause_text']) for v in self.violations],
                known_findings_reported=sorted(known_hit),
                units_failing_only_on_known_findings=sorted(known_units),
                samples=samples,
                bounded=cfg.get('bounded', []) + getattr(self, 'bounded_ev', []),
                kani=kani_ev,
            ),
            assumptions=assumptions,
            wall_s=round(wall, 2),
            violations=len(real_violations),
        )
        extra_ev = getattr(self, 'extra_evidence', None)
        if extra_ev:
            ev['coverage'].update(extra_ev)
        json.dump(ev, open(os.path.join(EVID, self.pid + '.json'), 'w'), indent=1)
        for ln in out_lines:
            print(ln)
        if real_violations:
            return 1
        if self.undecided:
            return 2
        print('OK property=%s tier=%s obligations=%d discharged=%d units=%d wall=%.1fs'
              % (self.pid, self.tier, obligations, discharged, len([u for u in units_ev if u['kind'] == 'fn']), wall))
        return 0

    def try_find_input(self, v, rep):
        """hook for the concrete-input search (probe programs against the real crate); filled per property"""
        finder = self.cfg.get('input_search')
        if not finder or os.environ.get('VT_NO_PROBE'):
            return None
        if str(v.get('group', '')).startswith('kani_') and not v.get('kani'):
            return None
        try:
            from . import probes
            r = probes.search(self.pid, v, rep)
            return r
        except Exception as e:     # the search never decides anything
            rep['input_search_error'] = str(e)
            return None


def run_catalogue(pid):
    """thorough tier: apply each catalogued semantic edit to a scratch copy of /repo/src and run the quick check on it.
    A mutant is KILLED when the check reports a VIOLATION (exit 1); undecided (exit 2) and survived (exit 0) are recorded."""
    path = os.path.join(MUTANTS, pid + '.json')
    if not os.path.exists(path):
        return None
    muts = json.load(open(path))
    base = os.path.join(GEN, pid, 'catalogue')
    shutil.rmtree(base, ignore_errors=True)
    os.makedirs(base, exist_ok=True)
    repo = weave.REPO

    def one(k, m):
        d = os.path.join(base, 'm%02d' % k)
        shutil.copytree(os.path.join(repo, 'src'), os.path.join(d, 'src'))
        f = os.path.join(d, m['file'])
        txt = open(f).read()
        n = txt.count(m['old'])
        if n < 1 or (m.get('nth') is None and n != 1):
            shutil.rmtree(d, ignore_errors=True)
            return dict(mutant=m['name'], file=m['file'], status='stale', detail='pattern occurs %d times' % n)
        if m.get('nth') is not None:
            parts = txt.split(m['old'])
            i = m['nth']
            txt = m['old'].join(parts[:i + 1]) + m['new'] + m['old'].join(parts[i + 1:])
        else:
            txt = txt.replace(m['old'], m['new'])
        open(f, 'w').write(txt)
        env = dict(os.environ)
        env.update(VT_REPO=d, VT_OUT=os.path.join(d, 'out'), VT_NO_PROBE='1')
        p = subprocess.run([os.path.join(VERIF, 'check'), pid, '--tier', 'quick'], env=env, stdout=subprocess.PIPE, stderr=subprocess.STDOUT, timeout=3600)
        out = p.stdout.decode(errors='replace')
        obs = re.findall(r'replay=\S*/([^/\s]+)\.json', out)
        status = {0: 'SURVIVED', 1: 'killed', 2: 'undecided'}.get(p.returncode, 'error')
        und = [l for l in out.split('\n') if l.startswith('UNDECIDED')][:2]
        shutil.rmtree(d, ignore_errors=True)
        return dict(mutant=m['name'], file=m['file'], status=status, by=obs[:4], detail=und)

    workers = 2 if PROPS[pid].get('kani') else 6
    with cf.ThreadPoolExecutor(max_workers=workers) as ex:
        res = list(ex.map(lambda km: one(*km), enumerate(muts)))
    return res


def main(argv):
    import argparse
    ap = argparse.ArgumentParser()
    ap.add_argument('pid')
    ap.add_argument('--tier', default=os.environ.get('VERIF_TIER', 'quick'))
    ap.add_argument('--replay')
    a = ap.parse_args(argv)
    seed = int(os.environ.get('VERIF_SEED', '0') or 0)
    if a.pid not in PROPS:
        print('unknown or unclaimed property %s' % a.pid)
        return 2
    if a.replay:
        from . import probes
        return probes.replay(a.pid, a.replay)
    run = PropertyRun(a.pid, a.tier, seed)
    run.weave_all()
    run.verify_all()
    run.classify()
    run.classify_kani()
    run.classify_bounded()
    if a.tier == 'thorough' and not os.environ.get('VT_OUT'):
        cat = run_catalogue(a.pid)
        if cat is not None:
            killed = sum(1 for r in cat if r['status'] == 'killed')
            run.extra_evidence = dict(mutation_catalogue=cat,
                                      mutation_summary='%d of %d catalogued semantic edits killed; survivors / undecided are listed (they weaken the claim, they are not alarms)' % (killed, len(cat)))
            for r in cat:
                if r['status'] != 'killed':
                    print('CATALOGUE property=%s mutant=%s status=%s' % (a.pid, r['mutant'], r['status']))
    extra = PROPS[a.pid].get('extra')
    if extra:
        from . import extras
        getattr(extras, extra)(run)
    return run.report()
