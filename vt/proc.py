"""Run a tool in its own process group with a wall-clock limit and an address-space cap.

subprocess.run(timeout=) kills only the direct child: Verus' z3 (or Kani's cbmc) would be left running, and an
unstable query on changed code has been seen to grow past 50 GB on this 62 GB, swapless machine.  Both limits end in
"undecided" (exit 2) in the driver, never in a violation."""
import os
import resource
import signal
import subprocess


def run(cmd, timeout, cwd=None, env=None, mem_gb=None, merge_stderr=False):
    def pre():
        if mem_gb:
            lim = int(mem_gb * (1 << 30))
            resource.setrlimit(resource.RLIMIT_AS, (lim, lim))
    p = subprocess.Popen(cmd, cwd=cwd, env=env, stdout=subprocess.PIPE,
                         stderr=subprocess.STDOUT if merge_stderr else subprocess.PIPE,
                         start_new_session=True, preexec_fn=pre)
    timed_out = False
    try:
        out, err = p.communicate(timeout=timeout)
    except subprocess.TimeoutExpired:
        timed_out = True
        try:
            os.killpg(p.pid, signal.SIGKILL)
        except ProcessLookupError:
            pass
        out, err = p.communicate()
    finally:
        try:
            os.killpg(p.pid, signal.SIGKILL)   # stragglers (z3, cbmc) of a finished run
        except (ProcessLookupError, PermissionError):
            pass
    return (out or b'').decode(errors='replace'), (err or b'').decode(errors='replace'), (-9 if timed_out else p.returncode), timed_out
