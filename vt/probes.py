"""Concrete-input search and replay against the real crate (cargo test --features verif).
Never decides a property; only attaches a failing input to an obligation Verus rejected."""
import json
import os
import re
import subprocess

from . import proc
from .weave import REPO

_KANI_CACHE = {}
PROBED = {'C01', 'C02', 'C04', 'C06', 'C07', 'C10', 'C11', 'C12', 'C13', 'C14', 'C15', 'C16', 'C17', 'C18'}


def _run(env_extra, timeout=1500):
    env = dict(os.environ)
    env.update(env_extra)
    env['CARGO_NET_OFFLINE'] = 'true'
    cmd = ['cargo', 'test', '--offline', '--features', 'verif', '--lib', 'verif_rac', '--', '--nocapture', '--test-threads', '1']
    # own process group: a timeout must also end the test binary (a changed loop may not terminate), not only cargo
    out, _, rc, timed_out = proc.run(cmd, timeout, cwd=REPO, env=env, merge_stderr=True)
    if timed_out:
        return dict(rc=rc, fails=[], ok=False, stats=None, tail='probe timed out after %ds' % timeout, cmd=' '.join(cmd))
    fails = []
    ok = False
    stats = None
    for ln in out.split('\n'):
        m = re.search(r'PROBE-FAIL (\{.*\})\s*$', ln)
        if m:
            try:
                fails.append(json.loads(m.group(1)))
            except Exception:
                pass
        if 'PROBE-OK' in ln:
            ok = True
        m = re.search(r'PROBE-STATS (\{.*\})\s*$', ln)
        if m:
            try:
                stats = json.loads(m.group(1))
            except Exception:
                pass
    return dict(rc=rc, fails=fails, ok=ok, stats=stats, tail=out[-3000:], cmd=' '.join(cmd))


def bounded(pid):
    """bounded exploration of a clause no contract reaches (labelled bounded, never counted as proved)"""
    r = _run({'VT_MODE': 'bounded', 'VT_PROP': pid})
    r['cmd'] = 'VT_MODE=bounded VT_PROP=%s %s' % (pid, r['cmd'])
    return r


def replay_input(pid, inp):
    """replay one concrete input (e.g. a Kani counterexample) against the real code; returns the probe's verdict"""
    import tempfile
    with tempfile.NamedTemporaryFile('w', suffix='.json', delete=False) as f:
        json.dump(inp, f)
        path = f.name
    try:
        return _run({'VT_MODE': 'replay', 'VT_PROP': pid, 'VT_INPUT': path})
    finally:
        os.unlink(path)


def search(pid, violation, rep):
    """run the small-space input search for property pid; fill rep['failing_input'] if found"""
    if pid not in PROBED:
        return None
    if violation.get('kani'):
        # Kani gives a counterexample: obtain it by concrete playback and replay it against the real code
        from . import kani as kani_mod
        k = violation['kani']
        key = (k['crate_dir'], k['harness'])
        if key not in _KANI_CACHE:
            _KANI_CACHE[key] = kani_mod.concrete_values(k['crate_dir'], k['harness'], k.get('extra_args'))
        vals = _KANI_CACHE[key]
        rep['kani_concrete_values'] = vals
        names = k.get('arg_names')
        if vals and names and len(vals) >= len(names):
            inp = dict(zip(names, vals))
            inp.update(k.get('fixed_args', {}))
            r = replay_input(pid, inp)
            rep['input_search_cmd'] = 'kani concrete playback + VT_MODE=replay VT_PROP=%s %s' % (pid, r['cmd'])
            if r['fails']:
                rep['failing_input'] = inp
                rep['failing_input_violates'] = r['fails'][0]['violated']
                rep['note'] = "Kani's counterexample (concrete playback), replayed against the real code (cargo test --features verif)"
                return r['fails'][0]
            rep['note'] = "Kani's counterexample %r did not reproduce through the public API probe" % (inp,)
    r = _run({'VT_MODE': 'search', 'VT_PROP': pid, 'VT_UNIT': violation.get('unit', '')})
    rep['input_search_cmd'] = 'VT_MODE=search VT_PROP=%s %s' % (pid, r['cmd'])
    if r['fails']:
        f = r['fails'][0]
        rep['failing_input'] = f['input']
        rep['failing_input_violates'] = f['violated']
        rep['note'] = 'input found by the small-space probe search and replayed against the real code (cargo test --features verif)'
        return f
    rep['note'] = 'Verus gives no counterexample; the small-space probe search found no failing input' + \
                  ('' if r['ok'] else ' (probe did not run: %s)' % r['tail'][-300:])
    return None


def replay(pid, path):
    r = _run({'VT_MODE': 'replay', 'VT_PROP': pid, 'VT_INPUT': os.path.abspath(path)})
    rep = json.load(open(path))
    print('replay of %s' % rep.get('obligation', path))
    if rep.get('failing_input') is None:
        print('no concrete input recorded (no-failing-input-found); verifier output follows')
        print(rep.get('verifier_output', ''))
        return 0
    if r['fails']:
        print('REPLAY-FAIL %s' % json.dumps(r['fails'][0]))
        return 1
    if r['ok']:
        print('REPLAY-OK (the recorded input no longer violates the property)')
        return 0
    print('replay did not run:\n' + r['tail'])
    return 2
