"""Normalisation rule table (DESIGN.md section 3).

Every rule is a purely syntactic rewrite of the extracted item text, applied by pattern.  The
same rules are applied to the frozen (pinned) text and to the current text of /repo, so a
changed function is normalised exactly like the original one.  A rule whose pattern does not
occur is simply not applied (count 0); the evidence records the number of applications.

A rule is referenced from a `//@unit` line as  name  or  name(arg;arg;...) .
"""
import re

RULES = {}


def rule(name):
    def deco(f):
        RULES[name] = f
        return f
    return deco


class RuleError(Exception):
    pass


def apply_rules(text, names):
    applied = []
    for spec in names:
        m = re.match(r'^([A-Za-z0-9_]+)(?:\((.*)\))?$', spec, re.S)
        if not m:
            raise RuleError('bad rule reference %r' % spec)
        name, arg = m.group(1), m.group(2)
        if name not in RULES:
            raise RuleError('unknown rule %r' % name)
        args = [a.strip() for a in arg.split(';;')] if arg is not None else []
        text, n = RULES[name](text, *args)
        applied.append('%s x%d' % (spec, n))
    return text, applied


IDENT = r'[A-Za-z_][A-Za-z0-9_]*'


def _balanced(s, i, open_ch='(', close_ch=')'):
    """s[i] == open_ch; return index of matching close (no string awareness needed for our sources
    except that string literals containing brackets are skipped)"""
    assert s[i] == open_ch, (s[i:i + 20], open_ch)
    d = 0
    k = i
    n = len(s)
    while k < n:
        c = s[k]
        if c == '"':
            k += 1
            while s[k] != '"':
                k += 2 if s[k] == '\\' else 1
        elif c == '/' and s.startswith('//', k):
            j = s.find('\n', k)
            k = n if j < 0 else j
            continue
        elif c == open_ch:
            d += 1
        elif c == close_ch:
            d -= 1
            if d == 0:
                return k
        k += 1
    raise RuleError('unbalanced %s' % open_ch)


# ---------------------------------------------------------------------------------------------
@rule('R0')
def r0_attrs(text):
    """drop attributes without run-time meaning; pub(crate) -> pub"""
    n = 0
    out = []
    for ln in text.split('\n'):
        if re.match(r'^\s*#\[(inline(\(always\))?|pyfunction.*|pyo3.*|allow.*|pyclass.*|pymethods.*|new|staticmethod|'
                    r'getter.*|setter.*|must_use.*|doc.*)\]\s*$', ln):
            n += 1
            continue
        if re.match(r'^\s*///', ln):
            n += 1
            continue
        out.append(ln)
    text = '\n'.join(out)
    text, k = re.subn(r'\bpub\((crate|super)\)', 'pub', text)
    return text, n + k


@rule('derive_drop')
def derive_drop(text):
    """drop #[derive(..)] lines (the derived impls are not part of the verified text)"""
    return re.subn(r'^[ \t]*#\[derive\([^\]]*\)\]\n', '', text, flags=re.M)


# R1: enumerate over a Vec / slice path
@rule('R1')
def r1_enumerate(text):
    """for (i, x) in V.iter().enumerate() {   ->   for i in 0..V.len() { let x = &V[i];"""
    pat = re.compile(r'for \((%s), (%s)\) in ([A-Za-z_][A-Za-z0-9_\.]*)\.iter\(\)\.enumerate\(\) \{' % (IDENT, IDENT))
    return pat.subn(lambda m: 'for %s in 0..%s.len() { let %s = &%s[%s];' % (m.group(1), m.group(3), m.group(2), m.group(3), m.group(1)), text)


# R15: CharString::chars()
@rule('R15_enum')
def r15_chars_enumerate(text):
    """for (i, c) in CS.chars().enumerate() {  ->  let vt_v = CS.vt_chars_vec(); for i in 0..vt_v.len() { let c = &vt_v[i];"""
    pat = re.compile(r'([ \t]*)for \((%s), (%s)\) in (.+?)\.chars\(\)\.enumerate\(\) \{' % (IDENT, IDENT))

    def sub(m):
        ind = m.group(1)
        return '%slet vt_v = %s.vt_chars_vec();\n%sfor %s in 0..vt_v.len() {\n%s    let %s = &vt_v[%s];' % (
            ind, m.group(4), ind, m.group(2), ind, m.group(3), m.group(2))
    return pat.subn(sub, text)


@rule('R15_collect')
def r15_chars_collect(text):
    """X.chars().collect()  ->  X.vt_chars_vec()   (X a CharString expression; listed per unit by the caller pattern)"""
    return re.subn(r'\.chars\(\)\.collect\(\)', '.vt_chars_vec()', text)


# R4: anyhow
@rule('R4')
def r4_anyhow(text):
    n = 0
    out = ''
    i = 0
    while True:
        m = re.search(r'\banyhow!\(', text[i:])
        if not m:
            out += text[i:]
            break
        s = i + m.start()
        o = i + m.end() - 1
        c = _balanced(text, o)
        # explicit format arguments are still evaluated (by reference, as the formatting macros do): a panic or an
        # arithmetic fault inside them stays an obligation; only the message text is dropped
        parts = [a.strip() for a in _split_top_str(text[o + 1:c])]
        args = [re.sub(r'^%s\s*=\s*(?!=)' % IDENT, '', a) for a in parts[1:] if a]
        if args:
            out += text[i:s] + '{ let _vt_fmt_args = (%s,); vt_anyhow() }' % ', '.join('&(%s)' % ' '.join(a.split()) for a in args)
        else:
            out += text[i:s] + 'vt_anyhow()'
        i = c + 1
        n += 1
    text = out
    text, k = re.subn(r'\banyhow::Result<', 'VtResult<', text)
    return text, n + k


def _split_top_str(s, sep=','):
    """split at top-level separators, ignoring those inside string literals and brackets"""
    parts, cur, d, k = [], '', 0, 0
    while k < len(s):
        ch = s[k]
        if ch == '"':
            m = re.match(r'"(?:[^"\\]|\\.|\\\n)*"', s[k:], re.S)
            if m:
                cur += m.group(0)
                k += m.end()
                continue
        if ch in '([{':
            d += 1
        elif ch in ')]}':
            d -= 1
        if ch == sep and d == 0:
            parts.append(cur)
            cur = ''
        else:
            cur += ch
        k += 1
    parts.append(cur)
    return parts


@rule('R10')
def r10_deref(text, *idents):
    """explicit deref of reference-bound loop variables in arithmetic: `total += count` -> `total += *count`
    args: pattern=>replacement literal pairs are not used; each arg is `EXPR` meaning: replace the whole-word
    occurrence `EXPR` by `*EXPR` when it is an arithmetic operand (preceded by an operator)."""
    n = 0
    for ident in idents:
        pat = re.compile(r'(?<=[-+*/%=<>] )' + re.escape(ident) + r'\b(?!\()')
        text, k = pat.subn('*' + ident, text)
        n += k
        pat2 = re.compile(r'(?<![*\w.&])' + re.escape(ident) + r'\b(?= [-+*/%] )')
        text, k = pat2.subn('*' + ident, text)
        n += k
    return text, n


@rule('subst')
def r_subst(text, *pairs):
    """literal substitution  old=>new  (used only for the named-idiom table R6/R9/R11; each use is listed in DESIGN)"""
    n = 0
    for p in pairs:
        old, _, new = p.partition('=>')
        k = text.count(old)
        text = text.replace(old, new)
        n += k
    return text, n


@rule('closure_annot')
def closure_annot(text, param, ptype, rtype):
    """|p| EXPR   ->   |p: PTYPE| -> RTYPE { EXPR }     (EXPR runs to the closing bracket / comma of the enclosing call).
    Adds the parameter and result types Rust would infer and a block around the unchanged body, so that the
    weaver can attach the closure's `ensures` (Verus does not infer closure postconditions)."""
    n = 0
    out = ''
    i = 0
    pat = re.compile(r'\|' + re.escape(param) + r'\| ')
    while True:
        m = pat.search(text, i)
        if not m:
            out += text[i:]
            break
        k = m.end()
        d = 0
        while k < len(text):
            c = text[k]
            if c in '([{':
                d += 1
            elif c in ')]}':
                if d == 0:
                    break
                d -= 1
            elif c == ',' and d == 0:
                break
            k += 1
        body = text[m.end():k]
        out += text[i:m.start()] + '|%s: %s| -> %s { %s }' % (param, ptype, rtype, body.strip())
        i = k
        n += 1
    return out, n


@rule('R11')
def r11_str_slice(text, *exprs):
    """&S[a..b] on a `str` S  ->  vt_str_slice(S, a, b)   (vstd has no usable spec for Index<Range<usize>> for str)"""
    n = 0
    for e in exprs:
        pat = re.compile(r'&' + re.escape(e) + r'\[([A-Za-z_][A-Za-z0-9_\.\(\)]*)\.\.([A-Za-z_][A-Za-z0-9_\.\(\)]*)\]')
        text, k = pat.subn(lambda m: 'vt_str_slice(%s, %s, %s)' % (e, m.group(1), m.group(2)), text)
        n += k
    return text, n


@rule('R6_count_until')
def r6_count_until(text):
    """the three call shapes of windows::count_until (a fold_while over a range / reversed range)"""
    n = 0
    text, k = re.subn(r'count_until\(\(([^\s.()]+)\.\.([^\s()]+)\)\.rev\(\), ', r'vt_count_bwd(\1, \2, ', text)
    n += k
    text, k = re.subn(r'count_until\(([^\s.()]+)\.\.([^\s,]+), ', r'vt_count_fwd(\1, \2, ', text)
    n += k
    return text, n


@rule('derive_only')
def derive_only(text, *keep):
    """restrict a #[derive(..)] list to the traits Verus can take (the dropped derived impls are not verified text)"""
    def sub(m):
        items = [x.strip() for x in m.group(1).split(',') if x.strip()]
        kept = [x for x in items if x in keep]
        return '#[derive(%s)]' % ', '.join(kept) if kept else ''
    return re.subn(r'#\[derive\(([^\]]*)\)\]', sub, text)


@rule('R2')
def r2_zip_enumerate(text):
    """for (i, (x, y)) in A.iter().zip(B.iter()).enumerate() {  ->  for i in 0..vt_min(A.len(), B.len()) { let (x, y) = (&A[i], &B[i]);"""
    pat = re.compile(r'([ \t]*)for \((%s), \((%s), (%s)\)\) in (%s)\.iter\(\)\.zip\((%s)\.iter\(\)\)\.enumerate\(\) \{' % ((IDENT,) * 5))

    def sub(m):
        ind, i, x, y, a, b = m.groups()
        return '%sfor %s in 0..vt_min(%s.len(), %s.len()) {\n%s    let (%s, %s) = (&%s[%s], &%s[%s]);' % (ind, i, a, b, ind, x, y, a, i, b, i)
    return pat.subn(sub, text)


@rule('R7')
def r7_trailing_continue(text):
    """`continue;` that is the sole statement of a branch of the last if/else chain of a loop body -> empty block
    (control reaches the end of the loop body anyway; checked structurally: after the chain only `}` follows)"""
    n = 0
    pos = 0
    while True:
        m = re.compile(r'\{\s*continue;\s*\}').search(text, pos)
        if not m:
            break
        k = m.end()
        # skip the rest of the if/else chain
        while True:
            mm = re.compile(r'\s*else\s*(if\b[^{]*)?\{').match(text, k)
            if not mm:
                break
            k = _balanced(text, mm.end() - 1, '{', '}') + 1
        if re.compile(r'\s*\}').match(text, k):
            text = text[:m.start()] + '{\n' + _indent_of(text, m.start()) + '}' + text[m.end():]
            n += 1
            pos = m.start() + 1
        else:
            pos = m.end()
    return text, n


def _indent_of(text, pos):
    ls = text.rfind('\n', 0, pos) + 1
    m = re.match(r'[ \t]*', text[ls:])
    return m.group(0)


@rule('R1d')
def r1_enumerate_deref(text):
    """for (i, &x) in V.iter().enumerate() {   ->   for i in 0..V.len() { let x = V[i];      (R1 + R3, Copy elements)"""
    pat = re.compile(r'([ \t]*)for \((%s), &(%s)\) in (%s)\.iter\(\)\.enumerate\(\) \{' % (IDENT, IDENT, IDENT))

    def sub(m):
        ind, i, x, v = m.groups()
        return '%sfor %s in 0..%s.len() {\n%s    let %s = %s[%s];' % (ind, i, v, ind, x, v, i)
    return pat.subn(sub, text)


@rule('R13')
def r13_iter_mut_skip(text):
    """for x in V.iter_mut().skip(K) { .. x[0] = e .. / *x = e .. }  ->  for vt_i in K..V.len() { .. V[vt_i][0] = e / V[vt_i] = e .. }"""
    pat = re.compile(r'for (%s) in ([A-Za-z_][A-Za-z0-9_\[\]]*)\.iter_mut\(\)\.skip\(([0-9]+)\) \{' % IDENT)
    n = 0
    while True:
        m = pat.search(text)
        if not m:
            break
        x, v, k = m.groups()
        o = m.end() - 1
        c = _balanced(text, o, '{', '}')
        body = text[o + 1:c]
        body2 = re.sub(r'\*' + x + r'\b', '%s[vt_i]' % v, body)
        body2 = re.sub(r'\b' + x + r'\[', '%s[vt_i][' % v, body2)
        if re.search(r'\b' + x + r'\b', body2):
            raise RuleError('R13: loop variable %s used in an unsupported way' % x)
        text = text[:m.start()] + 'for vt_i in %s..%s.len() {' % (k, v) + body2 + text[c:]
        n += 1
    return text, n


@rule('R6_split_ws')
def r6_split_ws(text):
    """X.split_ascii_whitespace().collect::<Vec<&str>>()  ->  vt_split_ascii_whitespace(X)
       X.split_whitespace().collect::<Vec<&str>>()        ->  vt_split_whitespace(X)"""
    return re.subn(r'\b(%s)\.split_(ascii_)?whitespace\(\)\.collect::<Vec<&str>>\(\)' % IDENT, r'vt_split_\2whitespace(\1)', text)


@rule('R6_max_by_key0')
def r6_max_by_key0(text):
    """V.iter().max_by(|(a, _), (b, _)| a.cmp(b)).expect(..)   ->  vt_max_by_key0(&V)     (std: LAST maximum)
       V.iter().min_by(|(a, _), (b, _)| a.cmp(b)).expect(..)   ->  vt_min_by_key0(&V)     (std: FIRST minimum)"""
    pat = re.compile(r'\b(%s)\s*\.iter\(\)\s*\.(max|min)_by\(\|\((%s), _\), \((%s), _\)\| (%s)\.cmp\((%s)\)\)\s*\.expect\("[^"]*"\)' % ((IDENT,) * 5))

    def sub(m):
        v, which, a, b, a2, b2 = m.groups()
        if a != a2 or b != b2:
            return m.group(0)
        return 'vt_%s_by_key0(&%s)' % (which, v)
    return pat.subn(sub, text)


@rule('R6_sets')
def r6_sets(text):
    """named HashSet idioms of edit::edited_words:
       HashSet::from_iter(0..N)                     -> vt_set_range(N)
       M.iter().map(|(a, _)| *a).collect()          -> vt_set_fst(&M)      (|(_, b)| *b -> vt_set_snd)
       A.difference(&B).cloned().collect()          -> vt_set_difference(&A, &B)"""
    n = 0
    text, k = re.subn(r'HashSet::from_iter\(0\.\.(%s)\)' % IDENT, r'vt_set_range(\1)', text)
    n += k
    pat = re.compile(r'\b(%s)\s*\.iter\(\)\s*\.map\(\|\((%s), (%s)\)\| \*(%s)\)\s*\.collect\(\)' % ((IDENT,) * 4))

    def sub(m):
        v, a, b, x = m.groups()
        if a != '_' and b == '_' and x == a:
            return 'vt_set_fst(&%s)' % v
        if a == '_' and b != '_' and x == b:
            return 'vt_set_snd(&%s)' % v
        return m.group(0)
    text, k = pat.subn(sub, text)
    n += k
    text, k = re.subn(r'\b(%s)\.difference\(&(%s)\)\.cloned\(\)\.collect\(\)' % (IDENT, IDENT), r'vt_set_difference(&\1, &\2)', text)
    n += k
    return text, n


@rule('R16')
def r16_hoist_arg(text, call, name):
    """ANF step:  STMT( .. CALL .. )  ->  let NAME = CALL; STMT( .. NAME .. )
    allowed only when everything evaluated before CALL inside the statement is a plain variable (checked: the text
    between the start of the statement and CALL consists of identifiers, `(`, `,` and whitespace, apart from the
    callee path), so evaluation order is unchanged."""
    if call.startswith('re:'):
        mm = re.search(call[3:], text)
        if not mm:
            return text, 0
        call = mm.group(0)
    elif '(' not in call:
        # a function name: hoist its (first) call whatever the arguments are
        mm = re.search(r'\b' + re.escape(call) + r'\(', text)
        if not mm:
            return text, 0
        call = text[mm.start():_balanced(text, mm.end() - 1) + 1]
    k = text.find(call)
    if k < 0:
        return text, 0
    # start of the enclosing statement: after the previous `;`, `{` or `}` at the same line structure
    s = max(text.rfind(';', 0, k), text.rfind('{', 0, k), text.rfind('}', 0, k)) + 1
    # skip leading comment lines / blank lines of the statement
    while True:
        mm = re.match(r'\s*//[^\n]*\n', text[s:k])
        if not mm:
            break
        s += mm.end()
    between = text[s:k]
    if not re.match(r'^\s*(let\s+(mut\s+)?%s(\s*:\s*[^=]+)?\s*=\s*)?([A-Za-z_][A-Za-z0-9_:]*\(\s*((%s)\s*,\s*)*)+$' % (IDENT, IDENT), between) \
            and not re.match(r'^\s*for %s in $' % IDENT, between):
        raise RuleError('R16: statement prefix %r is not a call on plain variables' % between)
    ls = text.rfind('\n', 0, s) + 1 if text[s:k].lstrip() == text[s:k] else s
    m = re.match(r'\s*', text[s:])
    ind_start = s + len(m.group(0))
    indent = _indent_of(text, ind_start)
    new = text[:ind_start] + 'let %s = %s;\n%s' % (name, call, indent) + text[ind_start:k] + name + text[k + len(call):]
    return new, 1


@rule('R9')
def r9_float(text, div='vt_fdiv'):
    """integer-to-float casts and the float quotient become calls of trusted helpers so that the integer part of the
    function is verifiable and "the quotient is defined" becomes an obligation:
       E as f64       -> vt_f64(E)               (E = the postfix chain in front of the cast: identifier or parenthesised
                                                  expression followed by field accesses / method calls)
       X / Y          -> DIV(X, Y)               (X, Y identifiers or vt_f64(..) calls; DIV = vt_fdiv: requires denominator >= 1)
       1.0            -> vt_f64(1)"""
    n = 0
    # casts: scan back from ` as f64` over a postfix chain
    pos = 0
    while True:
        k = text.find(' as f64', pos)
        if k < 0:
            break
        j = k
        while j > 0:
            ch = text[j - 1]
            if ch == ')' or ch == ']':
                # jump to the matching opener
                d = 0
                q = j - 1
                while q >= 0:
                    if text[q] in ')]':
                        d += 1
                    elif text[q] in '([':
                        d -= 1
                        if d == 0:
                            break
                    q -= 1
                j = q
            elif ch.isalnum() or ch == '_' or ch == '.':
                j -= 1
            elif ch in ' \t\n' and re.match(r'\s*\.', text[j - 1:k]) and text[:j].rstrip()[-1:] not in ';{}=(,':
                # whitespace inside a chain broken over lines: `x\n    .len()`
                j -= 1
            else:
                break
        operand = text[j:k]
        text = text[:j] + 'vt_f64(' + operand + ')' + text[k + len(' as f64'):]
        pos = j + len('vt_f64(') + len(operand) + 1
        n += 1
    # quotients of float operands
    opnd = r'(?:vt_f64\((?:[^()]|\((?:[^()]|\([^()]*\))*\))*\)|%s)' % IDENT
    pat = re.compile(r'(%s)\s*/\s*(%s)' % (opnd, opnd))
    text, k = pat.subn(lambda m: '%s(%s, %s)' % (div, m.group(1), m.group(2)), text)
    n += k
    text, k = re.subn(r'(?<![0-9A-Za-z_.])1\.0(?![0-9A-Za-z_])', 'vt_f64(1)', text)
    n += k
    return text, n


@rule('R6_slice_min')
def r6_slice_min(text):
    """V[A..B].iter().min().copied().unwrap_or(0)  ->  vt_slice_min_or0(&V, A, B)"""
    pat = re.compile(r'\b(%s)\[([^\]\n]+?)\.\.([^\]\n]+?)\]\s*\.iter\(\)\s*\.min\(\)\s*\.copied\(\)\s*\.unwrap_or\(0\)' % IDENT)
    return pat.subn(lambda m: 'vt_slice_min_or0(&%s, %s, %s)' % (m.group(1), m.group(2), m.group(3)), text)


@rule('R8')
def r8_break_value(text):
    """let x = loop { .. break v .. };   ->   let x; loop { .. { x = v; break; } .. };     (break-with-value desugaring)"""
    m = re.search(r'let (%s) = loop \{' % IDENT, text)
    if not m:
        return text, 0
    x = m.group(1)
    o = m.end() - 1
    c = _balanced(text, o, '{', '}')
    body = text[o:c + 1]
    body2, k = re.subn(r'\bbreak ([^;,\n{}]+?)\s*([,;])', lambda mm: '{ %s = %s; break; }%s' % (x, mm.group(1), mm.group(2)), body)
    if k == 0:
        return text, 0
    indent = _indent_of(text, m.start())
    return text[:m.start()] + 'let %s;\n%sloop ' % (x, indent) + body2 + text[c + 1:], 1


@rule('R6_weighted_arm')
def r6_weighted_arm(text):
    """named idioms of MultiTrainDataGenerator::next_idx (Weighted arm):
       V.iter().enumerate().filter_map(|(i, f)| if !f { Some(i) } else { None }).collect()   -> vt_false_indices(&V)
       I.iter().map(|i| W[*i]).collect::<Vec<usize>>()                                        -> vt_gather(&W, &I)"""
    n = 0
    pat = re.compile(r'(self\s*\.\s*%s|%s)\s*\.iter\(\)\s*\.enumerate\(\)\s*\.filter_map\(\|\((%s), (%s)\)\| if !(%s) \{ Some\((%s)\) \} else \{ None \}\)\s*\.collect\(\)' % ((IDENT,) * 6))

    def sub(m):
        v, i, f, f2, i2 = m.groups()
        if f != f2 or i != i2:
            return m.group(0)
        return 'vt_false_indices(&%s)' % re.sub(r'\s+', '', v)
    text, k = pat.subn(sub, text)
    n += k
    pat = re.compile(r'(%s)\s*\.iter\(\)\s*\.map\(\|(%s)\| (self\.%s|%s)\[\*(%s)\]\)\s*\.collect::<Vec<usize>>\(\)' % ((IDENT,) * 5))

    def sub2(m):
        idxs, i, w, i2 = m.groups()
        if i != i2:
            return m.group(0)
        return 'vt_gather(&%s, &%s)' % (w, idxs)
    text, k = pat.subn(sub2, text)
    n += k
    return text, n


@rule('R6_all_deref')
def r6_all_deref(text):
    """V.iter().all(|f| *f)  ->  vt_all_true(&V)     (vstd's spec of Iterator::all is too weak to use)"""
    return re.subn(r'(self\.%s|%s)\.iter\(\)\.all\(\|(%s)\| \*(%s)\)' % ((IDENT,) * 4),
                   lambda m: 'vt_all_true(&%s)' % m.group(1) if m.group(2) == m.group(3) else m.group(0), text)


@rule('R6_max_size')
def r6_max_size(text):
    """ITEMS.iter().map(|i| i.size()).max().unwrap_or(0)  ->  vt_max_size(ITEMS)"""
    return re.subn(r'\b(%s)\.iter\(\)\.map\(\|(%s)\| (%s)\.size\(\)\)\.max\(\)\.unwrap_or\(0\)' % ((IDENT,) * 3),
                   lambda m: 'vt_max_size(%s)' % m.group(1) if m.group(2) == m.group(3) else m.group(0), text)


@rule('R14')
def r14_for_chars_continue(text):
    """for c in CS.chars() { BODY with `continue` }  ->
         let vt_v = CS.vt_chars_vec(); let mut vt_i = 0; while vt_i < vt_v.len() { let c = &vt_v[vt_i]; vt_i += 1; BODY }
    (Rust's own desugaring of `for`: advance first, then run the body, so `continue` keeps its meaning)"""
    pat = re.compile(r'([ \t]*)for (%s) in (%s)\.chars\(\) \{' % (IDENT, IDENT))

    def sub(m):
        ind, c, cs = m.groups()
        return ('%slet vt_v = %s.vt_chars_vec();\n%slet mut vt_i = 0;\n%swhile vt_i < vt_v.len() {\n%s    let %s = &vt_v[vt_i];\n%s    vt_i += 1;'
                % (ind, cs, ind, ind, ind, c, ind))
    return pat.subn(sub, text)


@rule('R6_filter_join')
def r6_filter_join(text):
    """X.chars().filter(CLOSURE).join(SEP)   ->  vt_filter_join(X.vt_chars_vec(), CLOSURE, SEP)   (X may span lines)"""
    pat = re.compile(r'(?P<x>[A-Za-z_][A-Za-z0-9_:]*\([^()]*\)|%s)\s*\.chars\(\)\s*\.filter\((?P<cl>\|[^|]*\|[^\n]*?)\)\s*\.join\((?P<sep>"[^"]*")\)' % IDENT)
    return pat.subn(lambda m: 'vt_filter_join(%s.vt_chars_vec(), %s, %s)' % (m.group('x'), m.group('cl'), m.group('sep')), text)


@rule('R17')
def r17_hoist_closure(text, name):
    """ANF step for a closure argument:  STMT( .., |p: T| -> R { body }, .. )  ->  let NAME = |p: T| -> R { body }; STMT( .., NAME, .. )
    (creating a closure has no effect; the closure must already carry its block, i.e. come after closure_annot)"""
    m = re.search(r'\|[^|\n]*\| -> [^{\n]+ \{', text)
    if not m:
        return text, 0
    k = m.start()
    c = _balanced(text, m.end() - 1, '{', '}')
    closure = text[k:c + 1]
    s = max(text.rfind(';', 0, k), text.rfind('{', 0, k), text.rfind('}', 0, k)) + 1
    while True:
        mm = re.match(r'\s*//[^\n]*\n', text[s:k])
        if not mm:
            break
        s += mm.end()
    between = text[s:k]
    if not re.match(r'^\s*(let\s+(mut\s+)?%s(\s*:\s*[^=]+)?\s*=\s*)?([A-Za-z_][A-Za-z0-9_:]*\(\s*((%s)\s*,\s*)*)+$' % (IDENT, IDENT), between):
        raise RuleError('R17: statement prefix %r is not a call on plain variables' % between)
    mws = re.match(r'\s*', text[s:])
    ind_start = s + len(mws.group(0))
    indent = _indent_of(text, ind_start)
    new = text[:ind_start] + 'let %s = %s;\n%s' % (name, closure, indent) + text[ind_start:k] + name + text[c + 1:]
    return new, 1


@rule('R18')
def r18_slice_pattern(text):
    """match E { [b] => A, _ => B, }   ->   { let vt_s = E; if vt_s.len() == 1 { let b = &vt_s[0]; A } else { B } }
    (desugaring of the one-element slice pattern; Verus has no slice patterns)"""
    pat = re.compile(r'match ([^\n{]+?) \{\s*\[(%s)\] => ([^\n]+),\s*_ => ([^\n]+),\s*\}' % IDENT)
    text, n = pat.subn(lambda m: '{ let vt_s = %s; if vt_s.len() == 1 { let %s = &vt_s[0]; %s } else { %s } }' % m.groups(), text)
    # `if let [b] = E {`  ->  `if let Some(b) = vt_single(E) {`   (vt_single: Some(&s[0]) iff the slice has exactly one element)
    text, k = re.subn(r'if let \[(%s)\] = ([^\n{]+?) \{' % IDENT, r'if let Some(\1) = vt_single(\2) {', text)
    return text, n + k


@rule('R15_for')
def r15_for_chars(text):
    """for c in X.chars() {   ->   let vt_v = X.vt_chars_vec(); for vt_i in 0..vt_v.len() { let c = &vt_v[vt_i];     (body without `continue`)"""
    pat = re.compile(r'([ \t]*)for (%s) in (%s)\.chars\(\) \{' % (IDENT, IDENT))

    def sub(m):
        ind, c, x = m.groups()
        return '%slet vt_v = %s.vt_chars_vec();\n%sfor vt_i in 0..vt_v.len() {\n%s    let %s = &vt_v[vt_i];' % (ind, x, ind, ind, c)
    return pat.subn(sub, text)


@rule('R6_byte_process')
def r6_byte_process(text):
    """named idioms of ByteTokenizer::process_input (iterator adapters / macros Verus cannot take):
       vec![TokenGroup::Full(1); N]                                         -> vt_full_ones(N)
       T.extend(S.as_bytes().iter().map(|b| *b as u32))                      -> vt_extend_bytes(&mut T, S.as_bytes())
       G.extend(CS.get_char_byte_lengths().into_iter().map(TokenGroup::Full)) -> vt_extend_full(&mut G, CS.get_char_byte_lengths())
       C.code_points().map(|p| TokenGroup::Full(p.len_utf8())).collect()      -> vt_code_point_groups(C)
       HashMap::from([(K, V)])                                               -> vt_single_map(K, V)"""
    n = 0
    text, k = re.subn(r'vec!\[TokenGroup::Full\(1\); ([^\]]+)\]', r'vt_full_ones(\1)', text)
    n += k
    text, k = re.subn(r'\b(%s)\.extend\((%s)\.as_bytes\(\)\.iter\(\)\.map\(\|(%s)\| \*(%s) as u32\)\)' % ((IDENT,) * 4),
                      lambda m: 'vt_extend_bytes(&mut %s, %s.as_bytes())' % (m.group(1), m.group(2)) if m.group(3) == m.group(4) else m.group(0), text)
    n += k
    text, k = re.subn(r'\b(%s)\.extend\(\s*(%s)\.get_char_byte_lengths\(\)\.into_iter\(\)\.map\(TokenGroup::Full\),?\s*\)' % (IDENT, IDENT),
                      r'vt_extend_full(&mut \1, \2.get_char_byte_lengths())', text)
    n += k
    text, k = re.subn(r'\b(%s)\s*\.code_points\(\)\s*\.map\(\|(%s)\| TokenGroup::Full\((%s)\.len_utf8\(\)\)\)\s*\.collect\(\)' % ((IDENT,) * 3),
                      lambda m: 'vt_code_point_groups(%s)' % m.group(1) if m.group(2) == m.group(3) else m.group(0), text)
    n += k
    text, k = re.subn(r'HashMap::from\(\[\(\s*([^,\n]+),\s*(\([^()\n]*\)),?\s*\)\]\)', r'vt_single_map(\1, \2)', text)
    n += k
    return text, n


@rule('R6_chain3')
def r6_chain3(text):
    """A.iter().cloned().chain(B).chain(C.iter().cloned()).collect()   ->  vt_chain3(A, B, C)"""
    pat = re.compile(r'([A-Za-z_][A-Za-z0-9_\.]*\(\))\s*\.iter\(\)\s*\.cloned\(\)\s*\.chain\((%s)\)\s*\.chain\(([A-Za-z_][A-Za-z0-9_\.]*\(\))\.iter\(\)\.cloned\(\)\)\s*\.collect\(\)' % IDENT)
    return pat.subn(r'vt_chain3(\1, \2, \3)', text)


@rule('R6_extend_as_bytes')
def r6_extend_as_bytes(text):
    """V.extend( E.as_bytes(), )   ->   vt_extend_slice(&mut V, E.as_bytes());     (E may span lines)"""
    pat = re.compile(r'\b(%s)\.extend\(\s*((?:[^;]|\n)*?)\.as_bytes\(\),?\s*\);' % IDENT)
    return pat.subn(lambda m: 'vt_extend_slice(&mut %s, %s.as_bytes());' % (m.group(1), m.group(2)), text)


@rule('R6_tensor')
def r6_tensor(text):
    """named idioms of tokenization::padding_mask / data::pad_ids:
       L.iter().max().copied().unwrap_or(0)                       -> vt_max_or0(L)
       IDS.iter().map(|t| t.as_ref().len()).max().unwrap_or_default() -> vt_max_len(IDS)
       V.extend(repeat(X).take(N))                                -> vt_extend_repeat(&mut V, X, N)
       V.extend(E.as_ref().iter().cloned())                       -> vt_extend_cloned(&mut V, E.as_ref())
       for &x in L {                                              -> for vt_r in L { let x = *vt_r;          (R3)"""
    n = 0
    text, k = re.subn(r'\b(%s)\.iter\(\)\.max\(\)\.copied\(\)\.unwrap_or\(0\)' % IDENT, r'vt_max_or0(\1)', text)
    n += k
    text, k = re.subn(r'\b(%s)\s*\.iter\(\)\s*\.map\(\|(%s)\| (%s)\.as_ref\(\)\.len\(\)\)\s*\.max\(\)\s*\.unwrap_or_default\(\)' % ((IDENT,) * 3),
                      lambda m: 'vt_max_len(%s)' % m.group(1) if m.group(2) == m.group(3) else m.group(0), text)
    n += k
    text, k = re.subn(r'\b(%s)\.extend\(repeat\((%s)\)\.take\(([^;\n]+)\)\);' % (IDENT, r'[A-Za-z_0-9]+'), r'vt_extend_repeat(&mut \1, \2, \3);', text)
    n += k
    text, k = re.subn(r'\b(%s)\.extend\((%s)\.as_ref\(\)\.iter\(\)\.cloned\(\)\);' % (IDENT, IDENT), r'vt_extend_cloned(&mut \1, \2.as_ref());', text)
    n += k
    text, k = re.subn(r'([ \t]*)for &(%s) in (%s) \{' % (IDENT, IDENT), lambda m: '%sfor vt_r in %s {\n%s    let %s = *vt_r;' % (m.group(1), m.group(3), m.group(1), m.group(2)), text)
    n += k
    return text, n


@rule('R6_as_ref')
def r6_as_ref(text):
    """X.as_ref()  ->  vt_as_slice(X)      (AsRef<[T]>::as_ref on a generic `impl AsRef<[T]>`)"""
    return re.subn(r'\b(%s)\.as_ref\(\)' % IDENT, r'vt_as_slice(\1)', text)


@rule('R6_bpe_new')
def r6_bpe_new(text):
    """named idioms of BPETokenizer::new:
       MergeOps::load(P)                                              -> vt_load_merges(P)
       M.retain(|_, &mut id| id < L)                                  -> vt_retain_below(&mut M, L)
       for (k, _) in M.iter().sorted_by_key(|&(_, id)| id) {          -> for k in vt_keys_sorted_by_id(&M) {"""
    n = 0
    text, k = re.subn(r'\bMergeOps::load\(', 'vt_load_merges(', text)
    n += k
    text, k = re.subn(r'\b(%s)\.retain\(\|_, &mut (%s)\| (%s) < (%s)\)' % ((IDENT,) * 4),
                      lambda m: 'vt_retain_below(&mut %s, %s)' % (m.group(1), m.group(4)) if m.group(2) == m.group(3) else m.group(0), text)
    n += k
    text, k = re.subn(r'for \((%s), _\) in (%s)\.iter\(\)\.sorted_by_key\(\|&\(_, (%s)\)\| (%s)\) \{' % ((IDENT,) * 4),
                      lambda m: 'for %s in vt_keys_sorted_by_id(&%s) {' % (m.group(1), m.group(2)) if m.group(3) == m.group(4) else m.group(0), text)
    n += k
    return text, n


@rule('R9_cast')
def r9_cast(text):
    """float casts and powi only (the float operators themselves stay native: vstd gives +,*,/ on f64 uninterpreted specs):
       X as f64 -> vt_f64(X)   for X an identifier or a parenthesised expression with optional method calls;
       X.powi(N) -> vt_powi(X, N)"""
    n = 0
    pat = re.compile(r'((?:%s|\((?:[^()]|\([^()]*\))*\))(?:\.%s\((?:[^()]|\([^()]*\))*\))*) as f64\b' % (IDENT, IDENT))
    text, k = pat.subn(lambda m: 'vt_f64(%s)' % m.group(1), text)
    n += k
    text, k = re.subn(r'\b(%s)\.powi\(([0-9]+)\)' % IDENT, r'vt_powi(\1, \2)', text)
    n += k
    return text, n


@rule('R19')
def r19_extend_map_chars(text):
    """T.extend(CS.chars().map(|c| { BODY }));   ->
         let vt_v = CS.vt_chars_vec(); for vt_i in 0..vt_v.len() { let c = &vt_v[vt_i]; let vt_e = { BODY }; T.push(vt_e); }
    (`extend` pushes the mapped elements in iteration order; `map` applies the closure once per element, in order)"""
    pat = re.compile(r'([ \t]*)(%s)\.extend\((.+?)\.chars\(\)\.map\(\|(%s)\| \{' % (IDENT, IDENT))
    n = 0
    while True:
        m = pat.search(text)
        if not m:
            break
        ind, tvec, cs, c = m.groups()
        o = m.end() - 1
        cl = _balanced(text, o, '{', '}')
        tail = re.match(r'\)\);', text[cl + 1:])
        if not tail:
            break
        body = text[o:cl + 1]
        new = ('%slet vt_v = %s.vt_chars_vec();\n%sfor vt_i in 0..vt_v.len() {\n%s    let %s = &vt_v[vt_i];\n%s    let vt_e = %s;\n%s    %s.push(vt_e);\n%s}'
               % (ind, cs, ind, ind, c, ind, body, ind, tvec, ind))
        text = text[:m.start()] + new + text[cl + 1 + tail.end():]
        n += 1
    return text, n


@rule('R6_sparse')
def r6_sparse(text, *vec_idents):
    """named idioms of tokenization::token_groups_to_sparse_coo_matrix:
       assert_eq!(A, B[, msg..]);                                        -> assert!(A == B);         (message dropped, cf. R4)
       GS.iter().map(|(g, _)| g.len()).collect()                         -> vt_group_lengths(GS)
       X.iter().max().copied().unwrap_or(0)                              -> vt_max_or0(X) / vt_max_or0(&X) for the listed Vec identifiers
       X.iter().sum()                                                    -> vt_sum(X)
       for (i, &(a, b)) in GS.iter().enumerate() {                       -> for i in 0..GS.len() { let a = &GS[i].0; let b = &GS[i].1;
       V[A..B].iter_mut().for_each(|v| *v = E);                          -> vt_fill(&mut V, A, B, E);
       V[A..B].iter_mut().zip(C..D).for_each(|(v, w)| *v = w);           -> vt_fill_range(&mut V, A, B, C, D);
       V[A..B].iter_mut().zip(W).for_each(|(v, w)| *v = w);              -> vt_fill_from(&mut V, A, B, W);"""
    n = 0

    def sub_assert(m):
        inner = m.group(1)
        # split top-level commas
        parts, cur, d, q = [], '', 0, False
        for ch in inner:
            if ch == '"':
                q = not q
            if not q and ch in '([{':
                d += 1
            if not q and ch in ')]}':
                d -= 1
            if ch == ',' and d == 0 and not q:
                parts.append(cur)
                cur = ''
            else:
                cur += ch
        if cur.strip():
            parts.append(cur)
        if len(parts) < 2:
            return m.group(0)
        return 'assert!(%s == %s);' % (parts[0].strip(), parts[1].strip())
    text, k = re.subn(r'assert_eq!\(((?:[^()]|\((?:[^()]|\([^()]*\))*\))*)\);', sub_assert, text)
    n += k
    text, k = re.subn(r'\b(%s)\.iter\(\)\.map\(\|\((%s), _\)\| (%s)\.len\(\)\)\.collect\(\)' % ((IDENT,) * 3),
                      lambda m: 'vt_group_lengths(%s)' % m.group(1) if m.group(2) == m.group(3) else m.group(0), text)
    n += k
    text, k = re.subn(r'\b(%s)\.iter\(\)\.max\(\)\.copied\(\)\.unwrap_or\(0\)' % IDENT,
                      lambda m: 'vt_max_or0(%s%s)' % ('&' if m.group(1) in vec_idents else '', m.group(1)), text)
    n += k
    text, k = re.subn(r'\b(%s)\.iter\(\)\.sum\(\)' % IDENT, r'vt_sum(\1)', text)
    n += k
    text, k = re.subn(r'([ \t]*)for \((%s), &\((%s), (%s)\)\) in (%s)\.iter\(\)\.enumerate\(\) \{' % ((IDENT,) * 4),
                      lambda m: '%sfor %s in 0..%s.len() {\n%s    let %s = &%s[%s].0;\n%s    let %s = &%s[%s].1;' % (
                          m.group(1), m.group(2), m.group(5), m.group(1), m.group(3), m.group(5), m.group(2), m.group(1), m.group(4), m.group(5), m.group(2)), text)
    n += k
    text, k = re.subn(r'\b(%s)\[([^\]\n]+?)\.\.([^\]\n]+?)\]\s*\.iter_mut\(\)\s*\.for_each\(\|(%s)\| \*(%s) = ([^;\n]+)\);' % ((IDENT,) * 3),
                      lambda m: 'vt_fill(&mut %s, %s, %s, %s);' % (m.group(1), m.group(2), m.group(3), m.group(6)) if m.group(4) == m.group(5) else m.group(0), text)
    n += k
    text, k = re.subn(r'\b(%s)\[([^\]\n]+?)\.\.([^\]\n]+?)\]\s*\.iter_mut\(\)\s*\.zip\(([^\n()]+?)\.\.([^\n]+?)\)\s*\.for_each\(\|\((%s), (%s)\)\| \*(%s) = (%s)\);' % ((IDENT,) * 5),
                      lambda m: 'vt_fill_range(&mut %s, %s, %s, %s, %s);' % (m.group(1), m.group(2), m.group(3), m.group(4), m.group(5))
                      if m.group(6) == m.group(8) and m.group(7) == m.group(9) else m.group(0), text)
    n += k
    text, k = re.subn(r'\b(%s)\[([^\]\n]+?)\.\.([^\]\n]+?)\]\s*\.iter_mut\(\)\s*\.zip\((%s)\)\s*\.for_each\(\|\((%s), (%s)\)\| \*(%s) = (%s)\);' % ((IDENT,) * 6),
                      lambda m: 'vt_fill_from(&mut %s, %s, %s, %s);' % (m.group(1), m.group(2), m.group(3), m.group(4))
                      if m.group(5) == m.group(7) and m.group(6) == m.group(8) else m.group(0), text)
    n += k
    return text, n


@rule('R11_str')
def r11_str_len(text, *idents):
    """S.len() -> vt_str_len(S),  S.is_empty() -> vt_str_is_empty(S)   for the listed `&str` identifiers (whole words only).
    vstd's own contract of str::len only covers ASCII strings."""
    n = 0
    for s_ in idents:
        text, k = re.subn(r'(?<![A-Za-z0-9_.])' + re.escape(s_) + r'\.len\(\)', 'vt_str_len(%s)' % s_, text)
        n += k
        text, k = re.subn(r'(?<![A-Za-z0-9_.])' + re.escape(s_) + r'\.is_empty\(\)', 'vt_str_is_empty(%s)' % s_, text)
        n += k
    return text, n


def _split_top(s, sep=','):
    parts, cur, d = [], '', 0
    for ch in s:
        if ch in '([{':
            d += 1
        elif ch in ')]}':
            d -= 1
        if ch == sep and d == 0:
            parts.append(cur)
            cur = ''
        else:
            cur += ch
    parts.append(cur)
    return parts


@rule('R20')
def r20_fold(text, acc_type=None):
    """desugaring of Iterator::fold (definition: acc = f(acc, item) for every item in order):
       A.iter().zip(B.iter()).fold(INIT, |ACC, (P, T)| EXPR)            (tail expression, Copy elements)
           -> { let mut vt_acc = INIT; for vt_i in 0..vt_min(A.len(), B.len()) { let ACC = vt_acc; let (P, T) = (A[vt_i], B[vt_i]); vt_acc = EXPR; } vt_acc }
       let PAT = X.into_iter().fold(INIT, |ACC, ITEM| { STMTS; RESULT });
           -> let mut vt_acc = INIT; for ITEM in X { let ACC = vt_acc; STMTS; vt_acc = RESULT; } let PAT = vt_acc;
    optional argument: the accumulator type Rust infers (written out so that specification text may mention vt_acc early)"""
    n = 0
    # form A
    m = re.search(r'(%s)\.iter\(\)\s*\.zip\((%s)\.iter\(\)\)\s*\.fold\(' % (IDENT, IDENT), text)
    if m:
        o = m.end() - 1
        c = _balanced(text, o)
        args = _split_top(text[o + 1:c])
        if len(args) >= 2:
            init = args[0].strip()
            clo = ','.join(args[1:]).strip()
            mm = re.match(r'\|(.*?), \((%s), (%s)\)\| (.*)$' % (IDENT, IDENT), clo, re.S)
            if mm:
                acc, p, t, expr = mm.group(1).strip(), mm.group(2), mm.group(3), mm.group(4).strip()
                a, b = m.group(1), m.group(2)
                ty = (': ' + acc_type) if acc_type else ''
                new = ('{ let mut vt_acc%s = %s; for vt_i in 0..vt_min(%s.len(), %s.len()) { let %s = vt_acc; let (%s, %s) = (%s[vt_i], %s[vt_i]); vt_acc = %s; } vt_acc }'
                       % (ty, init, a, b, acc, p, t, a, b, expr))
                text = text[:m.start()] + new + text[c + 1:]
                n += 1
    # form B
    m = re.search(r'([ \t]*)let (\([^=]*?\)|%s) =\s*([A-Za-z_][A-Za-z0-9_\.]*)\s*\.into_iter\(\)\s*\.fold\(' % IDENT, text)
    if m:
        ind, pat, x = m.group(1), m.group(2), m.group(3)
        o = m.end() - 1
        c = _balanced(text, o)
        rest = text[c + 1:]
        if rest.lstrip().startswith(';'):
            args = _split_top(text[o + 1:c])
            init = args[0].strip()
            clo = ','.join(args[1:]).strip()
            mm = re.match(r'\|(\([^|]*?\)|%s), (\([^|]*?\)|%s)\| \{(.*)\}$' % (IDENT, IDENT), clo, re.S)
            if mm:
                acc, item, body = mm.group(1), mm.group(2), mm.group(3)
                stmts = _split_top(body, ';')
                result = stmts[-1].strip()
                pre = ';'.join(stmts[:-1]).strip()
                ty = (': ' + acc_type) if acc_type else ''
                new = ('%slet mut vt_acc%s = %s;\n%sfor %s in %s {\n%s    let %s = vt_acc;\n%s    %s;\n%s    vt_acc = %s;\n%s}\n%slet %s = vt_acc'
                       % (ind, ty, init, ind, item, x, ind, acc, ind, pre, ind, result, ind, ind, pat))
                text = text[:m.start()] + new + rest
                n += 1
    # form C: let PAT = X .into_iter() .map(|ITEM| { MBODY }) .fold(INIT, |ACC, ITEM2| { FBODY });
    m = re.search(r'([ \t]*)let (\([^=]*?\)|%s) =\s*([A-Za-z_][A-Za-z0-9_]*(?:\s*\.[A-Za-z_][A-Za-z0-9_]*)*?)\s*\.into_iter\(\)\s*\.map\(\|(\([^|]*?\)|%s)\| \{' % (IDENT, IDENT), text)
    if m:
        ind, pat, x, item = m.groups()
        x = re.sub(r'\s+', '', x)
        o = m.end() - 1
        c = _balanced(text, o, '{', '}')
        mbody = text[o:c + 1]
        fm = re.match(r'\)\s*\.fold\(', text[c + 1:])
        if fm:
            fo = c + 1 + fm.end() - 1
            fc = _balanced(text, fo)
            rest = text[fc + 1:]
            if rest.lstrip().startswith(';'):
                args = _split_top(text[fo + 1:fc])
                init = args[0].strip()
                clo = ','.join(args[1:]).strip().rstrip(',').strip()
                mm = re.match(r'\|(\([^|]*?\)|%s), (\([^|]*?\)|%s)\| \{(.*)\}$' % (IDENT, IDENT), clo, re.S)
                if mm:
                    acc, item2, fbody = mm.group(1), mm.group(2), mm.group(3).strip()
                    ty = (': ' + acc_type) if acc_type else ''
                    new = ('%slet mut vt_acc%s = %s;\n%sfor %s in %s {\n%s    let vt_m = %s;\n%s    let %s = vt_acc;\n%s    let %s = vt_m;\n%s    vt_acc = %s;\n%s}\n%slet %s = vt_acc'
                           % (ind, ty, init, ind, item, x, ind, mbody, ind, acc, ind, item2, ind, fbody, ind, ind, pat))
                    text = text[:m.start()] + new + rest
                    n += 1
    return text, n


@rule('R21')
def r21_map_collect(text):
    """let NAME: Vec<T> = X.iter().map(|P| BODY).collect();   ->
         let mut NAME: Vec<T> = Vec::new(); for P in X.iter() { let vt_e = { BODY }; NAME.push(vt_e); }
    (definition of map + collect into a Vec: the closure is applied once per element, in order; BODY a block or an
    expression; `Vec<_>` loses its annotation)"""
    m = re.search(r'([ \t]*)let (%s): (Vec<[^=]*?>) = (%s)\s*\.iter\(\)\s*\.map\(\|(%s)\| ' % (IDENT, IDENT, IDENT), text)
    if not m:
        return text, 0
    ind, name, ty, x, p = m.groups()
    k = m.end()
    if text[k] == '{':
        c = _balanced(text, k, '{', '}')
        body = text[k:c + 1]
        after = c + 1
    else:
        d = 0
        c = k
        while c < len(text):
            ch = text[c]
            if ch in '([{':
                d += 1
            elif ch in ')]}':
                if d == 0:
                    break
                d -= 1
            c += 1
        body = '{ %s }' % text[k:c].strip()
        after = c
    tail = re.match(r'\)\s*\.collect\(\);', text[after:])
    if not tail:
        return text, 0
    ann = '' if ty == 'Vec<_>' else ': ' + ty
    new = ('%slet mut %s%s = Vec::new();\n%sfor %s in %s.iter() {\n%s    let vt_e = %s;\n%s    %s.push(vt_e);\n%s}'
           % (ind, name, ann, ind, p, x, ind, body, ind, name, ind))
    return text[:m.start()] + new + text[after + tail.end():], 1


@rule('R6_any')
def r6_any(text):
    """X.iter().any(|v| BODY)  ->  vt_any(&X, |v: &usize| -> bool { BODY })     (the closure is real text with explicit types)"""
    n = 0
    while True:
        m = re.search(r'\b(%s)\.iter\(\)\.any\(\|(%s)\| ' % (IDENT, IDENT), text)
        if not m:
            break
        k = m.end()
        d = 0
        c = k
        while c < len(text):
            ch = text[c]
            if ch in '([{':
                d += 1
            elif ch in ')]}':
                if d == 0:
                    break
                d -= 1
            c += 1
        body = text[k:c].strip()
        text = text[:m.start()] + 'vt_any(&%s, |%s: &usize| -> bool { %s })' % (m.group(1), m.group(2), body) + text[c + 1:]
        n += 1
    return text, n


@rule('R6_sum')
def r6_sum(text):
    """X.iter().sum()  ->  vt_sum(&X)"""
    return re.subn(r'\b(%s)\.iter\(\)\.sum\(\)' % IDENT, r'vt_sum(&\1)', text)


@rule('closure_annot0')
def closure_annot0(text, rtype):
    """|| EXPR   ->   || -> RTYPE { EXPR }     (parameterless closure; EXPR runs to the closing bracket of the enclosing call)"""
    n = 0
    out = ''
    i = 0
    pat = re.compile(r'\|\| (?!->)')
    while True:
        m = pat.search(text, i)
        if not m:
            out += text[i:]
            break
        k = m.end()
        d = 0
        while k < len(text):
            c = text[k]
            if c in '([{':
                d += 1
            elif c in ')]}':
                if d == 0:
                    break
                d -= 1
            elif c == ',' and d == 0:
                break
            k += 1
        body = text[m.end():k]
        out += text[i:m.start()] + '|| -> %s { %s }' % (rtype, body.strip())
        i = k
        n += 1
    return out, n


@rule('R22')
def r22_lift_boxed_closure(text, *args):
    """fn F(P..) -> Box<dyn TR> { PRE  Box::new(move |a, b| { BODY }) }   ->
         fn F(P.., a: TA, b: TB) -> RT { PRE  { BODY } }
    args: one `name: Type` per closure parameter, then the closure's result type (taken from the Fn bound of TR).
    The function that *builds* the boxed closure becomes the function that *is* the closure: the captured variables are
    the builder's parameters / locals (captured by value: `move`), PRE is pure and is re-run per call.  Dropped: the Box,
    the trait object, the once-only evaluation of PRE."""
    if len(args) < 2:
        return text, 0
    params, rtype = list(args[:-1]), args[-1]
    names = [p.split(':')[0].strip() for p in params]
    m = re.search(r'\) -> Box<dyn %s> \{' % IDENT, text)
    if not m:
        return text, 0
    cm = re.search(r'([ \t]*)Box::new\(move \|%s\| \{' % ', '.join(re.escape(n) for n in names), text)
    if not cm:
        return text, 0
    o = cm.end() - 1
    c = _balanced(text, o, '{', '}')
    tail = re.match(r'\)\s*\}\s*$', text[c + 1:])
    if not tail:
        return text, 0
    # trailing comma of a multi-line parameter list
    head = text[:m.start()].rstrip()
    sep = ' ' if head.endswith(',') else ', '
    new_sig = head + sep + ', '.join(params) + ') -> %s {' % rtype
    body = text[m.end():cm.start()] + cm.group(1) + text[o:c + 1] + '\n}\n'
    return new_sig + body, 1


@rule('R23')
def r23_enumerate_map_join(text):
    """let X = CS .chars() .enumerate() .map(|(i, c)| { BODY }) .join("");   ->
         let vt_v = CS.vt_chars_vec(); let mut vt_parts: Vec<String> = Vec::new();
         for i in 0..vt_v.len() { let c = &vt_v[i]; let vt_e = { BODY }; vt_parts.push(vt_e); }
         let X = vt_join_empty(&vt_parts);
    (definition of enumerate + map + itertools::join with an empty separator: the closure runs once per element, in
    order, and the results are concatenated)"""
    m = re.search(r'([ \t]*)let (%s) = (%s)\s*\.chars\(\)\s*\.enumerate\(\)\s*\.map\(\|\((%s), (%s)\)\| \{' % (IDENT, IDENT, IDENT, IDENT), text)
    if not m:
        return text, 0
    ind, name, cs, i, cvar = m.groups()
    o = m.end() - 1
    c = _balanced(text, o, '{', '}')
    tail = re.match(r'\)\s*\.join\(""\);', text[c + 1:])
    if not tail:
        return text, 0
    body = text[o:c + 1]
    new = ('%slet vt_v = %s.vt_chars_vec();\n%slet mut vt_parts: Vec<String> = Vec::new();\n%sfor %s in 0..vt_v.len() {\n'
           '%s    let %s = &vt_v[%s];\n%s    let vt_e = %s;\n%s    vt_parts.push(vt_e);\n%s}\n%slet %s = vt_join_empty(&vt_parts);'
           % (ind, cs, ind, ind, i, ind, cvar, i, ind, body, ind, ind, ind, name))
    return text[:m.start()] + new + text[c + 1 + tail.end():], 1


@rule('R24')
def r24_string_add(text):
    """A.to_string() + B   ->   vt_string_add(A.to_string(), B)      (`impl Add<&str> for String` = push_str)"""
    pat = re.compile(r'("(?:[^"\\]|\\.)*"|%s(?:\.%s)*)\.to_string\(\) \+ ("(?:[^"\\]|\\.)*"|%s(?:\.%s)*)' % (IDENT, IDENT, IDENT, IDENT))
    return pat.subn(lambda m: 'vt_string_add(%s.to_string(), %s)' % (m.group(1), m.group(2)), text)


@rule('R25')
def r25_assert_macro(text):
    """assert!(COND, "message");   ->   if !(COND) { vt_panic(); }      (vt_panic requires false: the panic must be
    unreachable under the contract's precondition; the message is dropped)"""
    n = 0
    while True:
        m = re.search(r'assert!\(', text)
        if not m:
            break
        o = m.end() - 1
        c = _balanced(text, o, '(', ')')
        inner = text[o + 1:c]
        parts = _split_top(inner)
        cond = parts[0].strip()
        semi = re.match(r'\s*;', text[c + 1:])
        end = c + 1 + (semi.end() if semi else 0)
        text = text[:m.start()] + 'if !(%s) { vt_panic(); }' % ' '.join(cond.split()) + text[end:]
        n += 1
    return text, n


def _early_return_to_else(body):
    """{ PRE  if C { return V; }  REST }   ->   { PRE  if C { V } else { REST } }     (a closure body; one level)"""
    m = re.search(r'if ([^{}]+?) \{\s*return ([^;{}]+);\s*\}', body)
    if not m:
        return body, 0
    # REST = everything up to the closing brace of the body
    close = body.rstrip().rfind('}')
    rest = body[m.end():close].strip()
    ind = _indent_of(body, m.start())
    new = 'if %s {\n%s    %s\n%s} else {\n%s    %s\n%s}\n' % (m.group(1), ind, m.group(2), ind, ind, rest.replace('\n', '\n    '), ind)
    return body[:m.start()] + new + body[close - len(body[:close]) + len(body[:close]) - 0:][0:0] + _indent_of(body, close) + body[close:], 1


@rule('R26')
def r26_range_filter_collect(text):
    """let N: T = (RANGE) .filter_map(|i| { BODY }) .collect();   ->
         let mut N: T = Vec::new(); for i in RANGE { let vt_o = { BODY' }; if let Some(vt_x) = vt_o { N.push(vt_x); } }
       let N: T = (RANGE) .filter(|i| { BODY }) .collect();       ->
         let mut N: T = Vec::new(); for vt_k in RANGE { let i = &vt_k; let vt_b = { BODY }; if vt_b { N.push(vt_k); } }
    BODY' = BODY with an early `if C { return V; } REST` turned into `if C { V } else { REST }` (a `return` inside a closure
    ends the closure call, i.e. yields V for this element).  Definition of filter / filter_map + collect into a Vec: the
    closure runs once per element of the range, in order; kept elements are pushed in order."""
    n = 0
    while True:
        m = re.search(r'([ \t]*)let (%s): ([^=]+?) = \(([^()]*(?:\([^()]*\)[^()]*)*)\)\s*\.(filter_map|filter)\(\|(%s)\| \{' % (IDENT, IDENT), text)
        if not m:
            break
        ind, name, ty, rng, kind, var = m.groups()
        o = m.end() - 1
        c = _balanced(text, o, '{', '}')
        tail = re.match(r'\)\s*\.collect\(\);', text[c + 1:])
        if not tail:
            break
        body = text[o:c + 1]
        if kind == 'filter_map':
            body, _ = _early_return_to_else(body)
            new = ('%slet mut %s: %s = Vec::new();\n%sfor %s in %s {\n%s    let vt_o = %s;\n%s    if let Some(vt_x) = vt_o { %s.push(vt_x); }\n%s}'
                   % (ind, name, ty, ind, var, rng, ind, body, ind, name, ind))
        else:
            new = ('%slet mut %s: %s = Vec::new();\n%sfor vt_k in %s {\n%s    let %s = &vt_k;\n%s    let vt_b = %s;\n%s    if vt_b { %s.push(vt_k); }\n%s}'
                   % (ind, name, ty, ind, rng, ind, var, ind, body, ind, name, ind))
        text = text[:m.start()] + new + text[c + 1 + tail.end():]
        n += 1
    return text, n


@rule('R28')
def r28_option_map_pair(text):
    """EXPR .map(|x| (i, x))   ->   match EXPR { Some(x) => Some((i, x)), None => None }     (definition of Option::map)"""
    n = 0
    while True:
        m = re.search(r'\s*\.map\(\|(%s)\| \((%s), \1\)\)' % (IDENT, IDENT), text)
        if not m:
            break
        # EXPR starts after the previous `;`, `{` or `}` (statement start)
        k = m.start()
        j = k
        d = 0
        while j > 0:
            ch = text[j - 1]
            if ch in ')]':
                d += 1
            elif ch in '([':
                d -= 1
            elif ch in ';{}' and d == 0:
                break
            j -= 1
        expr = ' '.join(text[j:k].split()).replace(' .', '.')
        lead = text[j:k][:len(text[j:k]) - len(text[j:k].lstrip())]
        text = text[:j] + lead + 'match %s { Some(%s) => Some((%s, %s)), None => None }' % (expr, m.group(1), m.group(2), m.group(1)) + text[m.end():]
        n += 1
    return text, n


@rule('R29')
def r29_set_map(text):
    """X = X .into_iter() .map(|i| BODY) .collect();   ->   X = vt_set_map(X, |i: usize| -> usize { BODY });
    (a HashSet<usize> mapped element-wise into a HashSet<usize>: the result is the image of the set; the closure keeps its
    real text and gets explicit types so that its `requires`/`ensures` can be woven)"""
    n = 0
    while True:
        m = re.search(r'(%s) = \1\s*\.into_iter\(\)\s*\.map\(\|(%s)\| ' % (IDENT, IDENT), text)
        if not m:
            break
        x, var = m.groups()
        k = m.end()
        d = 0
        while k < len(text):
            ch = text[k]
            if ch in '([{':
                d += 1
            elif ch in ')]}':
                if d == 0:
                    break
                d -= 1
            k += 1
        body = text[m.end():k].strip()
        tail = re.match(r'\)\s*\.collect\(\);', text[k:])
        if not tail:
            break
        if not body.startswith('{'):
            body = '{ %s }' % body
        text = text[:m.start()] + '%s = vt_set_map(%s, |%s: usize| -> usize %s);' % (x, x, var, body) + text[k + tail.end():]
        n += 1
    return text, n


@rule('R30')
def r30_unwrap_or_default(text):
    """X.unwrap_or_default()   ->   vt_unwrap_or_default(X)      (Option<HashSet<usize>>: the set, or the empty set)"""
    return re.subn(r'\b(%s)\.unwrap_or_default\(\)' % IDENT, r'vt_unwrap_or_default(\1)', text)


def _postfix_operand(text, i):
    """parse one operand `ident(.ident | (args) | [idx])*` or a string literal starting at text[i]; returns end index"""
    m = re.match(r'"(?:[^"\\]|\\.)*"', text[i:])
    if m:
        k = i + m.end()
    else:
        m = re.match(IDENT, text[i:])
        if not m:
            return None
        k = i + m.end()
    while k < len(text):
        if text[k] == '(':
            k = _balanced(text, k, '(', ')') + 1
        elif text[k] == '[':
            k = _balanced(text, k, '[', ']') + 1
        else:
            m2 = re.match(r'\s*\.(%s)' % IDENT, text[k:])
            if m2:
                k += m2.end()
            else:
                break
    return k


@rule('R24c')
def r24_string_add_chain(text):
    """E0.to_string() + E1 + E2 ..   ->   vt_string_add(vt_string_add(E0.to_string(), E1), E2) ..
    (operands are postfix chains: `cs.sub(0, i)`, `insertion`, `cs.get(i).unwrap()`; `+` on String is left-associative
    push_str)"""
    n = 0
    pos = 0
    while True:
        m = re.search(r'\.to_string\(\)\s*\+\s', text[pos:])
        if not m:
            break
        end0 = pos + m.start() + len('.to_string()')
        # start of E0: scan back over the postfix chain
        j = pos + m.start()
        d = 0
        while j > 0:
            ch = text[j - 1]
            if ch in ')]':
                d += 1
            elif ch in '([':
                if d == 0:
                    break
                d -= 1
            elif d == 0 and not (ch.isalnum() or ch in '_."' or ch.isspace() and text[j:j + 1] == '.'):
                break
            j -= 1
        while text[j].isspace():
            j += 1
        acc = ' '.join(text[j:end0].split()).replace(' .', '.')
        k = end0
        while True:
            mm = re.match(r'\s*\+\s*', text[k:])
            if not mm:
                break
            s = k + mm.end()
            e = _postfix_operand(text, s)
            if e is None:
                break
            opnd = ' '.join(text[s:e].split()).replace(' .', '.')
            acc = 'vt_string_add(%s, %s)' % (acc, opnd)
            k = e
            n += 1
        text = text[:j] + acc + text[k:]
        pos = j + len(acc)
    return text, n


@rule('R32')
def r32_zip_map_sum(text):
    """STMT( A .iter() .zip(B.iter()) .map(|(P, T)| EXPR) .sum::<usize>() )   ->
         let vt_sum = { let mut vt_acc: usize = 0; for vt_i in 0..vt_min(A.len(), B.len()) { let (P, T) = (&A[vt_i], &B[vt_i]); vt_acc = vt_acc + EXPR; } vt_acc };
         STMT( vt_sum )
    (definition of zip + map + sum; the sum is hoisted in front of the statement it occurs in: everything evaluated before
    it in that statement must be a constructor / plain variable, which is checked)"""
    m = re.search(r'\b(%s)\s*\.iter\(\)\s*\.zip\((%s)\.iter\(\)\)\s*\.map\(\|\((%s), (%s)\)\| ' % (IDENT, IDENT, IDENT, IDENT), text)
    if not m:
        return text, 0
    a, b, p, t = m.groups()
    k = m.end()
    d = 0
    while k < len(text):
        ch = text[k]
        if ch in '([{':
            d += 1
        elif ch in ')]}':
            if d == 0:
                break
            d -= 1
        k += 1
    expr = text[m.end():k].strip()
    tail = re.match(r'\)\s*\.sum::<usize>\(\)', text[k:])
    if not tail:
        return text, 0
    end = k + tail.end()
    # statement start: the line on which the enclosing statement begins
    j = m.start()
    d = 0
    while j > 0:
        ch = text[j - 1]
        if ch in ')]':
            d += 1
        elif ch in '([':
            d -= 1
        elif ch in ';{}' and d <= 0:
            break
        j -= 1
    prefix = text[j:m.start()]
    if not re.fullmatch(r'\s*(?:Ok\(|Some\(|return |let %s = )?\s*' % IDENT, prefix):
        return text, 0
    ind = _indent_of(text, m.start() - len(prefix.lstrip()) if prefix.strip() else m.start())
    lead = prefix[:len(prefix) - len(prefix.lstrip())]
    hoist = ('%slet vt_sum = { let mut vt_acc: usize = 0; for vt_i in 0..vt_min(%s.len(), %s.len()) { let (%s, %s) = (&%s[vt_i], &%s[vt_i]); vt_acc = vt_acc + %s; } vt_acc };'
             % (lead, a, b, p, t, a, b, expr))
    return text[:j] + hoist + prefix + 'vt_sum' + text[end:], 1


@rule('R11_open')
def r11_open(text, *exprs):
    """&S[a..] on a `str` S  ->  vt_str_slice(S, a, vt_str_len(S))     (an open range ends at the string's byte length)"""
    n = 0
    for e in exprs:
        pat = re.compile(r'&' + re.escape(e) + r'\[([A-Za-z_][A-Za-z0-9_\.\(\)]*)\.\.\]')
        text, k = pat.subn(lambda m: 'vt_str_slice(%s, %s, vt_str_len(%s))' % (e, m.group(1), e), text)
        n += k
    return text, n


@rule('R6_extend_ref')
def r6_extend_ref(text):
    """V.extend(&E);   ->   vt_extend_slice(&mut V, &E);      (Vec<u8>::extend over a borrowed byte vector / slice: appends it)"""
    pat = re.compile(r'\b(%s)\.extend\(&((?:[^;()]|\((?:[^()]|\([^()]*\))*\))*?)\);' % IDENT)
    return pat.subn(lambda m: 'vt_extend_slice(&mut %s, &%s);' % (m.group(1), m.group(2)), text)


@rule('R6_extend_call')
def r6_extend_call(text):
    """V.extend(RECV.f(ARGS));   ->   vt_extend_vec(&mut V, RECV.f(ARGS));      (Vec<u32>::extend over an owned Vec: appends it)"""
    pat = re.compile(r'\b(%s)\.extend\((%s(?:\.%s)*\((?:[^()]|\([^()]*\))*\))\);' % (IDENT, IDENT, IDENT))
    return pat.subn(lambda m: 'vt_extend_vec(&mut %s, %s);' % (m.group(1), m.group(2)), text)
