"""Weaver: contract templates -> generated Verus files.

A template (contracts/*.rs) is a complete Verus file.  Regions between

    //@unit <file> <kind> <name> [impl=<regex>] [nth=<k>] [as=<label>]
    //@rule <rule>(<args>)
    ...
    //@end

hold the *woven* form of one item of /repo: its (normalised) text plus inserted specification
text.  On every run the item is re-extracted from /repo's working tree and normalised with the
rule table.  The specification tokens of the template region are recognised syntactically
(ghost_mask: proof blocks, let ghost, assert.., clause lists, result / iterator naming, allowed
verifier attributes); everything else must equal, token for token, the frozen normalised text
(contracts/frozen/<template>.json, written by `vt freeze`).  The specification runs are then
transported onto the *current* text through a token diff frozen -> current.  The generated
region therefore always is "current repo text + inserted ghost text"; on an unchanged tree it
equals the template region token for token.  `//@include <path>` lines are expanded textually
first, so shared preludes may contain units as well.
"""
import difflib
import hashlib
import json
import os
import re

from . import lexer
from .lexer import lex, Tok
from . import rules as rules_mod

REPO = os.environ.get('VT_REPO', '/repo')
VERIF = os.path.dirname(os.path.dirname(os.path.abspath(__file__)))

UNIT_RE = re.compile(r'^[ \t]*//@unit[ \t]+(.*)$')
RULE_RE = re.compile(r'^[ \t]*//@rule[ \t]+(.*)$')
END_RE = re.compile(r'^[ \t]*//@end[ \t]*$')
INCLUDE_RE = re.compile(r'^[ \t]*//@include[ \t]+(\S+)[ \t]*$')


class WeaveError(Exception):
    """machinery problem (template/anchor/rule) -> undecided, never a violation"""


class UnitSpec:
    def __init__(self, line):
        parts = _split_args(line)
        if len(parts) < 3:
            raise WeaveError('bad //@unit line: ' + line)
        self.file, self.kind, self.name = parts[:3]
        self.impl = None
        self.nth = 0
        self.rules = []
        self.label = None
        self.trusted = False
        for p in parts[3:]:
            k, _, v = p.partition('=')
            if k == 'impl':
                self.impl = v
            elif k == 'nth':
                self.nth = int(v)
            elif k == 'rules':
                self.rules = _split_rules(v)
            elif k == 'as':
                self.label = v
            else:
                raise WeaveError('unknown //@unit option %r' % p)
        self.explicit_label = self.label is not None
        if self.label is None:
            self.label = self.name
        self.key = '%s|%s|%s|%s|%d' % (self.file, self.kind, self.name, self.impl or '', self.nth)


def _impl_short(header):
    """self type of an impl header: `impl<T>Vocab<T>where..` -> Vocab ; `impl Tokenize for BPETokenizer` -> BPETokenizer"""
    h = header.split('where')[0]
    if ' for ' in h or '>for ' in h:
        h = re.split(r'\bfor ', h)[-1]
    else:
        h = re.sub(r'^impl(<[^>]*>)?\s*', '', h)
    m = re.match(r'[A-Za-z_][A-Za-z0-9_]*', h.strip())
    return m.group(0) if m else header


def _split_args(line):
    out, cur, q = [], '', None
    for ch in line.strip():
        if q:
            if ch == q:
                q = None
            else:
                cur += ch
        elif ch in '"`':
            q = ch
        elif ch in ' \t':
            if cur:
                out.append(cur)
                cur = ''
        else:
            cur += ch
    if cur:
        out.append(cur)
    return out


def _split_rules(v):
    out, cur, depth = [], '', 0
    for ch in v:
        if ch == '(':
            depth += 1
        if ch == ')':
            depth -= 1
        if ch == ',' and depth == 0:
            out.append(cur)
            cur = ''
        else:
            cur += ch
    if cur:
        out.append(cur)
    return out


# ----------------------------------------------------------------------------------------------
# token helpers

def texts(toks):
    """token texts for comparison; `>>`/`<<`-style tokens that may be split in generics are split"""
    out = []
    for t in toks:
        out.append(t.text)
    return out


def split_shift(toks):
    """split '>>' / '>>=' / '>=' ... no: only '>>' and '<<' into single chars so that generic
    closers compare equal regardless of lexing context"""
    out = []
    for t in toks:
        if t.text in ('>>', '<<'):
            out.append(Tok(t.text[0], t.pre, t.pos, t.line))
            out.append(Tok(t.text[1], '', t.pos + 1, t.line))
        else:
            out.append(t)
    return out


def lex2(s):
    toks, tail = lex(s)
    return split_shift(toks), tail


# ----------------------------------------------------------------------------------------------
# ghost erasure: which template tokens are specification text?

CLAUSE_KW = {'requires', 'ensures', 'invariant', 'invariant_except_break', 'decreases', 'recommends',
             'returns', 'no_unwind'}
GHOST_STMT_KW = {'assert', 'reveal', 'reveal_with_fuel', 'broadcast'}
ALLOWED_ATTR = re.compile(r'^#\[verifier::(rlimit\([0-9]+\)|spinoff_prover|loop_isolation\((true|false)\))\]$')


def _close(tx, i):
    d = 0
    for k in range(i, len(tx)):
        if tx[k] in lexer.OPEN:
            d += 1
        elif tx[k] in lexer.CLOSE:
            d -= 1
            if d == 0:
                return k
    raise WeaveError('unbalanced bracket in template near token %d (%s)' % (i, ' '.join(tx[i:i + 8])))


def _stmt_end(tx, i, what):
    """end index (inclusive) of the ghost statement starting at tx[i] (`assert ..;`, `assert .. by {..}`, `let ghost ..;`)"""
    n = len(tx)
    k = i + 1
    d = 0
    while k < n:
        x = tx[k]
        if d == 0 and x == ';':
            return k
        if d == 0 and x == 'by' and k + 1 < n and tx[k + 1] in ('{', '('):
            k2 = _close(tx, k + 1)
            if tx[k + 1] == '(':
                # by (mode) [requires ..] [{ .. }]
                k3 = k2 + 1
                if k3 < n and tx[k3] == 'requires':
                    while k3 < n and tx[k3] not in ('{', ';'):
                        if tx[k3] in lexer.OPEN:
                            k3 = _close(tx, k3)
                        k3 += 1
                if k3 < n and tx[k3] == '{':
                    k2 = _close(tx, k3)
                elif k3 < n and tx[k3] == ';':
                    return k3
            if k2 + 1 < n and tx[k2 + 1] == ';':
                return k2 + 1
            return k2
        if x in lexer.OPEN:
            d += 1
        elif x in lexer.CLOSE:
            d -= 1
            if d < 0:
                break
        k += 1
    raise WeaveError('%s: unterminated ghost statement `%s`' % (what, ' '.join(tx[i:i + 10])))


def ghost_mask(tmpl, what):
    """mask[i] == True iff template token i is specification (ghost) text.  Recognised purely syntactically:
       proof { .. } | let ghost/tracked ..; | assert/reveal/broadcast ..; | requires/ensures/invariant/decreases clauses up
       to the body brace | `-> (name: T)` result naming | `for p in name: e` iterator naming | #[verifier::rlimit/..]"""
    tx = [t.text for t in tmpl]
    n = len(tx)
    mask = [False] * n
    forms = []
    i = 0
    while i < n:
        x = tx[i]
        nx = tx[i + 1] if i + 1 < n else ''
        if x == 'proof' and nx == '{':
            k = _close(tx, i + 1)
            for q in range(i, k + 1):
                mask[q] = True
            forms.append('proof-block')
            i = k + 1
            continue
        if x == 'let' and nx in ('ghost', 'tracked'):
            k = _stmt_end(tx, i, what)
            for q in range(i, k + 1):
                mask[q] = True
            forms.append('let-ghost')
            i = k + 1
            continue
        if x in GHOST_STMT_KW and nx != '!' and (i == 0 or tx[i - 1] not in ('.', '::')):
            k = _stmt_end(tx, i, what)
            for q in range(i, k + 1):
                mask[q] = True
            forms.append(x)
            i = k + 1
            continue
        if x == 'assume' and nx == '(':
            raise WeaveError('%s: `assume` inside a woven unit is not allowed' % what)
        if x in CLAUSE_KW and (i == 0 or tx[i - 1] not in ('.', '::')):
            # clause list up to (not including) the body brace at bracket depth 0
            k = i
            d = 0
            while k < n:
                if d == 0 and tx[k] in ('{', ';'):
                    break
                if tx[k] in lexer.OPEN:
                    d += 1
                elif tx[k] in lexer.CLOSE:
                    d -= 1
                k += 1
            if k >= n:
                raise WeaveError('%s: clause list without body' % what)
            for q in range(i, k):
                mask[q] = True
            forms.append('clauses')
            i = k
            continue
        if x == '->' and nx == '(' and i + 3 < n and tx[i + 3] == ':' and re.match(r'^[a-z_][a-z0-9_]*$', tx[i + 2]):
            k = _close(tx, i + 1)
            mask[i + 1] = mask[i + 2] = mask[i + 3] = True
            mask[k] = True
            forms.append('ret-name')
            i = i + 4
            continue
        if x == 'in' and i + 2 < n and tx[i + 2] == ':' and re.match(r'^[a-z_][a-z0-9_]*$', nx) and _in_for_header(tx, i):
            mask[i + 1] = mask[i + 2] = True
            forms.append('for-iter-name')
            i = i + 3
            continue
        if x == '#' and nx == '[' and i + 2 < n and tx[i + 2] == 'verifier':
            k = _close(tx, i + 1)
            attr = ''.join(tx[i:k + 1])
            if not ALLOWED_ATTR.match(attr):
                raise WeaveError('%s: attribute %s may not be woven into a unit' % (what, attr))
            for q in range(i, k + 1):
                mask[q] = True
            forms.append('attr')
            i = k + 1
            continue
        i += 1
    return mask, forms


def _in_for_header(tx, i):
    """tx[i] == 'in': is it the `in` of a `for PAT in` header?"""
    k = i - 1
    d = 0
    while k >= 0:
        if tx[k] in lexer.CLOSE:
            d += 1
        elif tx[k] in lexer.OPEN:
            if d == 0:
                return False
            d -= 1
        elif d == 0 and tx[k] == 'for':
            return True
        elif d == 0 and tx[k] in (';', '{', '}'):
            return False
        k -= 1
    return False


def insertions(base, tmpl, what):
    """erase the ghost text from the template region; the rest must be the repo text token for token.
    returns ins[p] = list of ghost tokens inserted before base token p (p == len(base): after the last)"""
    mask, forms = ghost_mask(tmpl, what)
    real = [t for t, g in zip(tmpl, mask) if not g]
    bt, rt = texts(base), texts(real)
    if bt != rt:
        k = 0
        while k < min(len(bt), len(rt)) and bt[k] == rt[k]:
            k += 1
        raise WeaveError('%s: template is not "repo text + specification text": after erasing the ghost text, token %d differs: '
                         'repo `%s` (line %d of the normalised unit) vs template `%s`'
                         % (what, k, ' '.join(bt[max(0, k - 6):k + 6]), base[k].line if k < len(base) else -1,
                            ' '.join(rt[max(0, k - 6):k + 6])))
    ins = {}
    p = 0
    for t, g in zip(tmpl, mask):
        if g:
            ins.setdefault(p, []).append(t)
        else:
            p += 1
    return ins, forms


def transport(base, cur, ins):
    """place the insertion runs (keyed by base position) into the current token list"""
    bt, ct = texts(base), texts(cur)
    if bt == ct:
        pos = {p: p for p in ins}
    else:
        sm = difflib.SequenceMatcher(None, bt, ct, autojunk=False)
        pos = {}
        ops = sm.get_opcodes()
        for p in ins:
            q = None
            for tag, i1, i2, j1, j2 in ops:
                if tag == 'equal' and i1 <= p <= i2:
                    q = j1 + (p - i1)
                    break
            if q is None:
                for tag, i1, i2, j1, j2 in ops:
                    if i1 <= p <= i2:
                        q = j1 if p == i1 else j2
                        break
            if q is None:
                q = len(ct)
            pos[p] = q
    # consistent renames of a local identifier (x -> y wherever x occurred, x gone, y new): the specification text that
    # mentions x is carried over with the same renaming (a rename changes no meaning; without this every renamed local
    # that an invariant mentions would end undecided)
    ren = {}
    if bt != ct:
        cand = {}
        bad = set()
        for tag, i1, i2, j1, j2 in ops:
            if tag == 'replace' and i2 - i1 == j2 - j1:
                for a, b in zip(bt[i1:i2], ct[j1:j2]):
                    if a != b and re.fullmatch(r'[A-Za-z_][A-Za-z0-9_]*', a) and re.fullmatch(r'[A-Za-z_][A-Za-z0-9_]*', b):
                        if cand.setdefault(a, b) != b:
                            bad.add(a)
        cts, bts = set(ct), set(bt)
        kw = {'as', 'break', 'const', 'continue', 'crate', 'else', 'enum', 'extern', 'false', 'fn', 'for', 'if', 'impl', 'in', 'let',
              'loop', 'match', 'mod', 'move', 'mut', 'pub', 'ref', 'return', 'self', 'Self', 'static', 'struct', 'super', 'trait',
              'true', 'type', 'unsafe', 'use', 'where', 'while', 'async', 'await', 'dyn'}
        # only LOCAL bindings: the old name is introduced by `let` / `let mut` / `for` in the frozen text
        bound = set(bt[k + 1] for k in range(len(bt) - 1) if bt[k] in ('let', 'mut', 'for') and bt[k + 1] not in ('mut', '('))
        for a, b in cand.items():
            if (a not in bad and a not in kw and b not in kw and a in bound and a not in cts and b not in bts
                    and list(cand.values()).count(b) == 1):
                ren[a] = b
    out = []
    by_pos = {}
    for p in sorted(ins):
        by_pos.setdefault(pos[p], []).append(ins[p])
    for k in range(len(cur) + 1):
        for run in by_pos.get(k, []):
            for t in run:
                if ren and t.text in ren:
                    t = Tok(ren[t.text], t.pre, t.pos, t.line)
                out.append(('ghost', t))
        if k < len(cur):
            out.append(('repo', cur[k]))
    return out


def body_open_index(tokens_kinds):
    """index (in the woven token list) of the repo `{` that opens the fn body: the first repo `{` at bracket
    depth 0 (counted over repo tokens only) after the `fn` keyword"""
    depth = 0
    seen_fn = False
    for k, (kind, t) in enumerate(tokens_kinds):
        if kind != 'repo':
            continue
        x = t.text
        if x == 'fn' and depth == 0:
            seen_fn = True
            continue
        if not seen_fn:
            continue
        if x in ('(', '['):
            depth += 1
        elif x in (')', ']'):
            depth -= 1
        elif x == '{' and depth == 0:
            return k
    return None


def sha(s):
    return hashlib.sha256(s.encode()).hexdigest()


class Unit:
    pass


def load_frozen(tmpl_path):
    p = frozen_path(tmpl_path)
    if os.path.exists(p):
        return json.load(open(p))
    return {}


def frozen_path(tmpl_path):
    d = os.path.join(os.path.dirname(tmpl_path), 'frozen')
    return os.path.join(d, os.path.basename(tmpl_path) + '.json')


def extract_and_normalise(spec, repo=None):
    repo = repo or REPO
    path = os.path.join(repo, spec.file)
    if not os.path.exists(path):
        raise WeaveError('unit %s: file %s not found' % (spec.label, path))
    src = open(path).read()
    try:
        ex = lexer.extract(src, spec.kind, spec.name, impl=spec.impl, nth=spec.nth)
    except lexer.ExtractError as e:
        raise WeaveError('unit %s: %s' % (spec.label, e))
    raw = ex['text']
    if ex.get('impl_header') and not spec.explicit_label:
        spec.label = '%s::%s' % (_impl_short(ex['impl_header']), spec.name)
    text, applied = rules_mod.apply_rules(raw, ['R0'] + spec.rules)
    return raw, text, applied, ex


def split_template(tmpl_text, tmpl_path):
    """-> list of ('text', str) | ('unit', UnitSpec, region_text, first_line)"""
    segs = []
    # includes are expanded first (textually), so that an included file may contain //@unit regions as well
    expanded = []
    for ln in tmpl_text.split('\n'):
        mi = INCLUDE_RE.match(ln)
        if mi:
            inc = os.path.join(VERIF, mi.group(1))
            if not os.path.exists(inc):
                raise WeaveError('%s: include %s not found' % (tmpl_path, inc))
            expanded.append('// ---- begin include %s' % mi.group(1))
            expanded += open(inc).read().rstrip('\n').split('\n')
            expanded.append('// ---- end include %s' % mi.group(1))
        else:
            expanded.append(ln)
    lines = expanded
    i = 0
    buf = []
    while i < len(lines):
        ln = lines[i]
        mi = INCLUDE_RE.match(ln)
        m = UNIT_RE.match(ln)
        if mi:
            inc = os.path.join(VERIF, mi.group(1))
            if not os.path.exists(inc):
                raise WeaveError('%s: include %s not found' % (tmpl_path, inc))
            buf.append('// ---- begin include %s' % mi.group(1))
            buf.append(open(inc).read().rstrip('\n'))
            buf.append('// ---- end include %s' % mi.group(1))
            i += 1
        elif m:
            if buf:
                segs.append(('text', '\n'.join(buf) + '\n'))
                buf = []
            spec = UnitSpec(m.group(1))
            j = i + 1
            reg = []
            while j < len(lines) and not END_RE.match(lines[j]):
                if UNIT_RE.match(lines[j]):
                    raise WeaveError('%s:%d: nested //@unit' % (tmpl_path, j + 1))
                mr = RULE_RE.match(lines[j])
                if mr:
                    spec.rules.append(mr.group(1).strip())
                else:
                    reg.append(lines[j])
                j += 1
            if j >= len(lines):
                raise WeaveError('%s:%d: //@unit without //@end' % (tmpl_path, i + 1))
            segs.append(('unit', spec, '\n'.join(reg) + '\n', i + 2))
            i = j + 1
        else:
            buf.append(ln)
            i += 1
    if buf:
        segs.append(('text', '\n'.join(buf)))
    return segs


def weave_template(tmpl_path, repo=None, freeze=False, sig_only=()):
    """Returns dict(text=generated file text, units=[...], linemap=[(origin, ...)])"""
    tmpl_text = open(tmpl_path).read()
    segs = split_template(tmpl_text, tmpl_path)
    frozen = load_frozen(tmpl_path)
    new_frozen = {}
    out_lines = []      # generated text pieces
    units = []
    gen = ''

    def cur_line():
        return gen.count('\n') + 1

    for seg in segs:
        if seg[0] == 'text':
            gen += seg[1]
            continue
        _, spec, region, first_line = seg
        raw, cur_text, applied, ex = extract_and_normalise(spec, repo)
        what = '%s[%s]' % (os.path.basename(tmpl_path), spec.label)
        if freeze:
            base_text = cur_text
            new_frozen[spec.key] = dict(text=cur_text, raw_sha256=sha(raw))
        else:
            if spec.key not in frozen:
                raise WeaveError('%s: no frozen text (run `vt freeze`)' % what)
            base_text = frozen[spec.key]['text']
        base, _ = lex2(base_text)
        tmpl, ttail = lex2(region)
        cur, _ = lex2(cur_text)
        ins, forms = insertions(base, tmpl, what)
        identical = texts(base) == texts(cur)
        u = Unit()
        u.spec = spec
        u.label = spec.label
        u.file = spec.file
        u.repo_start = ex['start_line']
        u.repo_end = ex['end_line']
        u.raw = raw
        u.raw_sha = sha(raw)
        u.norm_sha = sha(cur_text)
        u.rules_applied = applied
        u.identical_to_frozen = identical
        # closures that the frozen text did not have carry no specification (Verus infers none): Verus is blind to their results
        u.new_closures = max(0, sum(1 for t in texts(cur) if t == '|') - sum(1 for t in texts(base) if t == '|'))
        u.ghost_runs = len(ins)
        u.ghost_forms = forms
        u.kind = spec.kind
        u.cur_text = cur_text
        u.sig_only = False
        if spec.label in sig_only and spec.kind == 'fn' and not identical:
            # fallback for a restructured body: keep only the signature-level specification (result name, requires /
            # ensures / decreases of the function); loop invariants and proof blocks cannot be placed any more
            bo = None
            depth = 0
            seen_fn = False
            for k, t in enumerate(base):
                if t.text == 'fn' and depth == 0:
                    seen_fn = True
                elif seen_fn and t.text in ('(', '['):
                    depth += 1
                elif seen_fn and t.text in (')', ']'):
                    depth -= 1
                elif seen_fn and t.text == '{' and depth == 0:
                    bo = k
                    break
            if bo is not None:
                ins = {p: r for p, r in ins.items() if p <= bo}
                u.sig_only = True
        woven = transport(base, cur, ins)
        body = ''.join(t.render() for (_, t) in woven) + '\n'
        # by construction: erasing the ghost tokens gives the current text
        assert [t.text for (k, t) in woven if k == 'repo'] == texts(cur)
        if identical:
            # on an unchanged unit the woven text is the template region, token for token
            assert [t.text for (_, t) in woven] == texts(tmpl), what
        u.body_open_tok = body_open_index(woven) if spec.kind == 'fn' else None
        gen += '// ---- unit %s  (%s:%d-%d)\n' % (spec.label, spec.file, u.repo_start, u.repo_end)
        start = cur_line()
        gen += body
        if not body.endswith('\n'):
            gen += '\n'
        u.gen_start = start
        u.gen_end = cur_line() - 1
        u.gen_text = body
        units.append(u)
    return dict(text=gen, units=units, frozen=new_frozen)
