#!/bin/bash
# usage: seedall.sh [out-file]  -- apply every archived seeded change to /repo in turn, run its property's quick check, undo it
out=${1:-/verif/gen/seedall.txt}; : > $out
for d in /verif/seeded/*/; do
  id=$(basename $d); pid=${id%%_*}
  git -C /repo apply $d/patch.diff || { echo "$id patch does not apply" >> $out; continue; }
  res=$(cd /verif && VT_OUT=/verif/gen/_scratch_out ./check $pid 2>&1 | grep -E "^(OK|VIOLATION|UNDECIDED)" | sed -E 's/ replay=[^ ]*\/([^\/ ]+)\.json/ \1/' | cut -c1-150 | tr '\n' ';')
  git -C /repo checkout -- .
  echo "$id: $res" >> $out
done
git -C /repo status --short >> $out
