#!/bin/bash
# run every quick check on the current tree (refreshes /verif/evidence); exit 1 if any check does not exit 0
cd "$(dirname "$0")"; rc=0
for p in C01 C02 C04 C06 C07 C10 C11 C12 C13 C14 C15 C16 C17 C18; do ./check $p --tier ${1:-quick} || rc=1; done
exit $rc
